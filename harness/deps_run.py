"""Driver shared by C03, C04, C05, C06, C14: R1 model checking, R2 replay of the kernels TLC
enumerated, R3 random kernels; observations are validated by Trace_Deps."""
import concurrent.futures
import json
import multiprocessing
import os
import random
import re
import shutil
import traceback

from harness import deps_common as dc
from harness import env, synth, tlc

_MODELS = {}
DENSE_SHAPES = ("opa", "opb", "opc", "opd", "opl", "oph", "opk")
_SCRATCH = []   # synthetic model directories, removed after the verdicts (replay files embed the models)


def _models(isa, dirpath):
    key = (isa, dirpath)
    if key not in _MODELS:
        _MODELS[key] = synth.load(os.path.join(dirpath, "syn_%s.yml" % isa), os.path.join(dirpath, "syn_isa_%s.yml" % isa))
    return _MODELS[key]


def _arch_models(arch):
    key = ("arch", arch)
    if key not in _MODELS:
        _MODELS[key] = synth.load_arch(arch)
    return _MODELS[key]


def _observe_items(task):
    """Worker: analyse a list of rendered kernels with the real code.
    task = (kind, isa, where, items); items = [(cid, text, k or None, flag_deps, extra)]"""
    kind, isa, where, items, checks = task
    out = []
    try:
        mm, sem, parser = _models(isa, where) if kind == "syn" else _arch_models(where)
    except Exception as e:
        return [{"id": it[0], "error": "model load: %s: %s" % (type(e).__name__, e)} for it in items]
    for cid, text, k, flag_deps, extra in items:
        try:
            obs = dc.observe(text, mm, sem, parser, flag_deps=flag_deps)
            if k is not None and extra and extra.get("latFromObs"):
                # latencies are the model's business (C07/C08); take them as observed
                k = dict(k, lat=obs["lat"], latwo=obs["latwo"], lds=obs["lds"])
                if kind != "syn":
                    k["pidx"] = dc.units(mm.get("p_index_latency", 1))
                    k["fwd"] = dc.units(mm.get("store_to_load_forward_latency", 0) or 0)
            c = dc.make_case(cid, obs, checks, k=k, extra=extra)
            c["text"] = text
            c["olat"], c["olatwo"], c["olds"] = obs["lat"], obs["latwo"], obs["lds"]
            c["model"] = {"kind": kind, "isa": isa, "where": where, "flag_deps": bool(flag_deps)}
            out.append(c)
        except Exception as e:
            out.append({"id": cid, "error": "%s: %s" % (type(e).__name__, e), "text": text,
                        "trace": traceback.format_exc()[-1500:], "meta": (extra or {}).get("meta", {}),
                        "model": {"kind": kind, "isa": isa, "where": where, "flag_deps": bool(flag_deps)}})
    return out


def observe_parallel(tasks, procs=14):
    if not tasks:
        return []
    ctx = multiprocessing.get_context("fork")
    # ProcessPoolExecutor workers are not daemonic, so the code under test may start its own
    # worker processes (LCD search of kernels >= 50 lines)
    with concurrent.futures.ProcessPoolExecutor(min(procs, len(tasks)), mp_context=ctx) as pool:
        res = list(pool.map(_observe_items, tasks))
    return [c for r in res for c in r]


def validate(run, cases, label, chunk=4000):
    """Trace_Deps over the cases (several JVMs in parallel).  Returns list of (case, clause, detail)."""
    chunks = [cases[i:i + chunk] for i in range(0, len(cases), chunk)]
    rejects = []

    def one(ix_cs):
        ix, cs = ix_cs
        slim = [{k: v for k, v in c.items() if k not in ("text", "olat", "olatwo", "olds", "meta", "model", "rotText")} for c in cs]
        return tlc.batch_validate("Trace_Deps", "Trace_Deps", slim, tag="%s-%d" % (label, ix), timeout=1500)

    with concurrent.futures.ThreadPoolExecutor(max_workers=6) as ex:
        for (rej, r) in ex.map(one, list(enumerate(chunks))):
            run.add_mc(r, "Trace_Deps:" + label)
            rejects += rej
    byid = {c["id"]: c for c in cases}
    return [(byid[cid], clause, detail) for cid, clause, detail in rejects]


# ------------------------------------------------------------------------------------------
# R1 + R2: kernels enumerated by TLC
# ------------------------------------------------------------------------------------------
def mc_deps(run, cfg):
    out = os.path.join(tlc.WORK, "mcdeps-%s-%d.ndjson" % (cfg, os.getpid()))
    if os.path.exists(out):
        os.unlink(out)
    r = tlc.run_tlc("MC_Deps", cfg, env={"OUTFILE": out}, workers=16, timeout=1500)
    run.add_mc(r, cfg)
    seen, kernels = set(), []
    for rec in tlc.read_emitted(out):
        key = json.dumps(rec["ops"], sort_keys=True)
        if key not in seen:
            seen.add(key)
            kernels.append(rec)
    os.unlink(out)
    return kernels


LOCMAPS = {"x86": {"a": "gpr:a", "b": "gpr:bp", "c": "gpr:r8"}, "aarch64": {"a": "gp:0", "b": "gp:17", "c": "gp:28"}}


def render_ops(isa, shapes, ops, rnd, locmap):
    """MC_Deps op sequence -> list of concrete instructions (None if not expressible on this ISA)."""
    byname = {s["name"]: s for s in shapes}
    instrs = []
    for n, o in enumerate(ops):
        if o["op"] == "nop":
            instrs.append(dc.noise_instr(isa, rnd, n))
            continue
        if o["op"] not in byname:
            return None
        instrs.append(dc.gen_instr(isa, byname[o["op"]], rnd, args=[locmap[l] for l in o["args"]], same_width=True))
    return instrs


def _same_abstract(instrs, k, locmap):
    """The harness's by-construction abstraction must equal the TLA+ op table's (binding self-check)."""
    inv = locmap
    for i, ins in enumerate(instrs):
        for f in ("R", "W", "WB"):
            if sorted(ins[f]) != sorted(inv[l] for l in k[f][i]):
                return "%s of instr %d: harness %s vs spec %s" % (f, i + 1, ins[f], k[f][i])
        for f in ("FR", "FW"):
            if sorted(ins[f]) != sorted(k[f][i]):
                return "%s of instr %d: harness %s vs spec %s" % (f, i + 1, ins[f], k[f][i])
    return None


def replay_enumerated(run, pid, checks, kernels, seed, flag_deps, limit=None, tag="r2"):
    rnd = random.Random(seed)
    if limit and len(kernels) > limit:
        small = [k for k in kernels if len(k["ops"]) <= 2]
        big = [k for k in kernels if len(k["ops"]) > 2]
        rnd.shuffle(big)
        kernels = small + big[:max(0, limit - len(small))]
    d = env.scratch("%s-%s-%d" % (pid.lower(), tag, os.getpid()))
    tasks, total = [], 0
    for isa in ("x86", "aarch64"):
        shapes = dc.synthetic_shapes(isa, random.Random(seed + 17))
        pidx, fwd = 2.0, 0.0
        dc.write_synthetic_models(isa, shapes, d, pidx=pidx, fwd=fwd)
        _models(isa, d)   # load once here: forked workers inherit it (no concurrent cache writes)
        items = []
        for n, rec in enumerate(kernels):
            instrs = render_ops(isa, shapes, rec["ops"], rnd, LOCMAPS[isa])
            if instrs is None:
                continue
            if "k" in rec:
                bad = _same_abstract(instrs, rec["k"], LOCMAPS[isa])
                if bad:
                    raise AssertionError("binding self-check failed: " + bad)
            k = dc.abstract_kernel(instrs, pidx, fwd, flag_deps)
            items.append(("%s:%s:%s:%d" % (pid, tag, isa, n), dc.kernel_text(instrs), k, flag_deps,
                          {"meta": {"isa": isa, "src": "enumerated", "shapes": [i["shape"] for i in instrs]}}))
        total += len(items)
        step = max(1, len(items) // 14 + 1)
        for i in range(0, len(items), step):
            tasks.append(("syn", isa, d, items[i:i + step], checks))
    cases = observe_parallel(tasks)
    _SCRATCH.append(d)
    return cases


# ------------------------------------------------------------------------------------------
# R3: random kernels over fresh random synthetic role tables
# ------------------------------------------------------------------------------------------
def random_synthetic(run, pid, checks, seed, n_kernels, maxlen, tag="r3", nmodels=3):
    rnd = random.Random(seed * 7919 + 11)
    tasks = []
    dirs = []
    for m in range(nmodels):
        d = env.scratch("%s-%s%d-%d" % (pid.lower(), tag, m, os.getpid()))
        dirs.append(d)
        for isa in ("x86", "aarch64"):
            shapes = dc.synthetic_shapes(isa, rnd)
            pidx = rnd.choice([1.0, 2.0, 3.0])
            dc.write_synthetic_models(isa, shapes, d, pidx=pidx, fwd=0.0, hidden_loads=(rnd.random() < 0.5))
            _models(isa, d)   # load once here: forked workers inherit it
            items = []
            for n in range(n_kernels // (2 * nmodels)):
                ln = rnd.randint(1, maxlen)
                # few registers -> many dependencies and kills
                pool = rnd.sample(dc.GPR_POOL[isa], rnd.choice([2, 3, 4]))
                vpool = rnd.sample(dc.VEC_POOL[isa], 2)
                use = shapes
                if rnd.random() < 0.4:
                    # dense: register arithmetic over two or three registers -> many overlapping chains and cycles
                    use = [s for s in shapes if s["name"] in DENSE_SHAPES]
                    pool = rnd.sample(dc.GPR_POOL[isa], rnd.choice([2, 3]))
                    ln = rnd.randint(min(4, maxlen), min(9, maxlen))
                instrs = []
                for q in range(ln):
                    if rnd.random() < 0.08 and use is shapes:
                        instrs.append(dc.noise_instr(isa, rnd, q))
                    else:
                        instrs.append(dc.gen_instr(isa, rnd.choice(use), rnd, pool=pool, vpool=vpool))
                fd = rnd.random() < 0.5
                k = dc.abstract_kernel(instrs, pidx, 0.0, fd)
                # kernels deep inside a long file: line numbers around and beyond 1000
                pad = "\n" * rnd.choice([990, 996, 998, 999, 1000, 1003, 1500, 2999]) if rnd.random() < 0.12 else ""
                items.append(("%s:%s:%s:m%d:%d" % (pid, tag, isa, m, n), pad + dc.kernel_text(instrs, rnd), k, fd,
                              {"meta": {"isa": isa, "src": "random-synthetic", "shapes": [i["shape"] for i in instrs]}}))
            step = max(1, len(items) // 3 + 1)
            for i in range(0, len(items), step):
                tasks.append(("syn", isa, d, items[i:i + step], checks))
    cases = observe_parallel(tasks)
    for d in dirs:
        _SCRATCH.append(d)
    return cases


# ------------------------------------------------------------------------------------------
def _embed(c):
    """Make a failing case self-contained: embed the synthetic model files it was analysed with."""
    m = c.get("model") or {}
    if m.get("kind") == "syn" and os.path.isdir(str(m.get("where"))):
        files = {}
        for f in os.listdir(m["where"]):
            if f.endswith(".yml") and m["isa"] in f:
                with open(os.path.join(m["where"], f)) as fh:
                    files[f] = fh.read()
        c = dict(c, model=dict(m, files=files))
    return c


def report(run, pid, rejected, cases):
    rejected = [(_embed(c), cl, d) for c, cl, d in rejected[:200]] + rejected[200:]
    for c in cases:
        if "error" in c:
            c = _embed(c)
            run.fail("%s:exception:%s" % (pid, c["error"].split(":")[0]), c["error"], c)
    for c, clause, detail in rejected:
        meta = c.get("meta", {})
        pair = re.findall(r"<<(\d+), (\d+)>>", " ".join(str(x) for x in detail)) if "edge" in clause else []
        if pair and meta.get("shapes") and len(meta["shapes"]) == c["n"]:
            i, j = [(int(x) - 1) % c["n"] for x in pair[0]]
            inc = meta.get("incomplete")
            a, b = int(pair[0][0]), int(pair[0][1])
            between = [inc[(m - 1) % c["n"]] for m in range(a + 1, b)] if inc else []
            culprit = inc and (inc[j] or inc[i] or next((x for x in between if x), ""))
            if culprit and meta.get("flagdeps"):
                run.fail("%s:isa-db-flags-incomplete:%s:%s" % (pid, meta.get("isa"), culprit),
                         "%s %s->%s with flag dependencies on %r" % (clause, meta["shapes"][i], meta["shapes"][j], c.get("text", "")[:200]), c)
                continue
            sig = "%s:%s:%s:%s:%s->%s" % (pid, meta.get("src", "?"), meta.get("isa", "?"), clause, meta["shapes"][i], meta["shapes"][j])
            run.fail(sig, "%s on kernel %r: %s" % (clause, c.get("text", "")[:300], detail), c)
            continue
        sig = "%s:%s:%s:%s:%s" % (pid, meta.get("src", "?"), meta.get("isa", "?"), clause, "/".join(meta.get("shapes", [])))
        run.fail(sig, "%s on kernel %r: %s" % (clause, c.get("text", "")[:300], detail), c)


def nontrivial_edges(c):
    """C03 rule: at least one edge and at least one kill (a reader shadowed by an intermediate writer)."""
    k = c.get("k")
    if not k or not c.get("E"):
        return False
    n = k["n"]
    for i in range(n):
        for l in k["W"][i] + k["WB"][i]:
            killed = False
            for j in range(i + 1, n):
                if killed and l in k["R"][j]:
                    return True
                if l in k["W"][j] + k["WB"][j]:
                    killed = True
    return False


def finish_family(run, pid, cases):
    good = [c for c in cases if "error" not in c]
    rejected = validate(run, good, pid.lower())
    run.add_traces(len(good))
    report(run, pid, rejected, cases)
    for c in good[:2] + good[-2:]:
        run.sample({k: c.get(k) for k in ("id", "text", "E", "cp", "cpMarked", "lcd")})
    while _SCRATCH:
        shutil.rmtree(_SCRATCH.pop(), ignore_errors=True)


def run_family(run, pid, tier, seed, checks, validate_now=True):
    quick = tier == "quick"
    cases = []
    # R1/R2
    for cfg, fd in (("MC_Deps_quick", True), ("MC_Deps_noflags", False)):
        kernels = mc_deps(run, cfg)
        cases += replay_enumerated(run, pid, checks, kernels, seed, fd, limit=None, tag=cfg[8:])
    kernels3 = mc_deps(run, "MC_Deps_n3")
    cases += replay_enumerated(run, pid, checks, kernels3, seed, True, limit=(2500 if quick else None), tag="n3")
    if pid == "C04":
        graphs = mc_critpath(run, "MC_CritPath_quick")
        if not quick:
            graphs += mc_critpath(run, "MC_CritPath_thorough")
        cases += replay_critpath_graphs(run, pid, ("edges",) + tuple(checks), graphs, seed, limit=(1728 if quick else 30000))
    if pid in ("C05", "C14"):
        run.add_mc(tlc.run_tlc("MC_LoopDeps", "MC_LoopDeps_quick", workers=16, timeout=1500), "MC_LoopDeps_quick")
        if not quick:
            run.add_mc(tlc.run_tlc("MC_LoopDeps", "MC_LoopDeps_n3r", workers=16, timeout=2400), "MC_LoopDeps_n3r")
    # R3
    cases += random_synthetic(run, pid, checks, seed, 1200 if quick else 12000, 12 if pid != "C05" else 10)
    cases += random_vocab(run, pid, checks, seed, 60 if quick else 400, 10,
                          env.QUICK_X86 if quick else env.X86_ARCHS, env.QUICK_ARM if quick else env.ARM_ARCHS)
    if validate_now:
        finish_family(run, pid, cases)
    return cases


def replay(path, checks=None):
    """Re-run one recorded case against the current code and validate it again with TLC.
    exit 0: the case is accepted now; 1: still rejected (VIOLATION line printed)."""
    from harness.verdict import Run

    with open(path) as f:
        rec = json.load(f)
    c = rec["case"]
    m = c["model"]
    print("replaying %s (%s)" % (rec["signature"], path))
    if m["kind"] == "syn":
        d = env.scratch("replay-%d" % os.getpid())
        for name, content in m.get("files", {}).items():
            with open(os.path.join(d, name), "w") as fh:
                fh.write(content)
        where = d
    else:
        env.warm_models([m["where"]])
        where = m["where"]
    extra = {"meta": c.get("meta", {})}
    for key in ("r", "rotLcd", "rotMax", "latFromObs"):
        if key in c:
            extra[key] = c[key]
    if "k" in c and m["kind"] != "syn":
        extra["latFromObs"] = True
    item = (c["id"], c.get("rotText") or c["text"], c.get("k"), m["flag_deps"], extra)
    use = tuple(checks or c.get("checks") or ())
    if "rot" in c.get("checks", []):
        print("rotation case: re-analysing the rotated text only (run the check for the full comparison)")
        use = ("lcd",)
        item = (c["id"], c["rotText"], None, m["flag_deps"], {"meta": c.get("meta", {})})
    out = _observe_items((m["kind"], m["isa"], where, [item], use))
    run = Run(rec["property"], "quick", rec.get("seed", 0))
    bad = 0
    for o in out:
        if "error" in o:
            print("exception:", o["error"])
            bad += 1
    good = [o for o in out if "error" not in o]
    for cc, clause, detail in validate(run, good, "replay"):
        print("rejected:", clause, detail)
        bad += 1
    if m["kind"] == "syn":
        shutil.rmtree(where, ignore_errors=True)
    if bad:
        print("VIOLATION property=%s replay=%s" % (rec["property"], path))
        return 1
    print("accepted on the current tree")
    return 0


# ------------------------------------------------------------------------------------------
# shipped example / test kernels ("graph" mode: the graph is taken from the observation)
# ------------------------------------------------------------------------------------------
def shipped_kernels(max_instr=60):
    """[(name, isa, kernel_text)]: the marked section of every shipped example and test kernel
    (whole file if unmarked and short).  Extraction uses the real parser + reduce_to_section
    (C11 checks those); here only the instruction texts matter."""
    import glob
    from osaca.parser import ParserAArch64, ParserX86ATT
    from osaca.semantics import reduce_to_section

    out = []
    files = sorted(glob.glob(os.path.join(env.REPO, "examples", "*", "*.s")))
    files += sorted(f for f in glob.glob(os.path.join(env.REPO, "tests", "test_files", "*.s")) if ".copy." not in f)
    for f in files:
        base = os.path.basename(f)
        isa = "aarch64" if ("tx2" in base or "aarch64" in base or "arm" in base) else "x86"
        parser = ParserAArch64() if isa == "aarch64" else ParserX86ATT()
        try:
            with open(f) as fh:
                parsed = parser.parse_file(fh.read())
            kernel = reduce_to_section(parsed, isa)
        except Exception:
            continue
        lines = [l.line for l in kernel if l.mnemonic is not None or l.label is not None]
        if not lines or len(lines) > max_instr:
            continue
        out.append((os.path.relpath(f, env.REPO), isa, "\n".join(lines) + "\n"))
    return out


def shipped_cases(run, pid, checks, archs_x86, archs_arm, flag_deps=(False,), rotations=False, max_rot=None, seed=0):
    env.warm_models(archs_x86 + archs_arm)
    rnd = random.Random(seed)
    tasks = []
    for name, isa, text in shipped_kernels():
        for arch in (archs_x86 if isa == "x86" else archs_arm):
            items = []
            for fd in flag_deps:
                items.append(("%s:shipped:%s:%s:fd%d" % (pid, arch, name, fd), text, None, fd,
                              {"meta": {"isa": isa, "src": "shipped:" + arch, "shapes": [name]}}))
            tasks.append(("arch", isa, arch, items, checks))
    return observe_parallel(tasks)


# ------------------------------------------------------------------------------------------
# R2 for C04: every small graph enumerated by MC_CritPath, rendered as a kernel whose
# dependency graph is exactly that graph
# ------------------------------------------------------------------------------------------
def mc_critpath(run, cfg):
    out = os.path.join(tlc.WORK, "mccp-%s-%d.ndjson" % (cfg, os.getpid()))
    if os.path.exists(out):
        os.unlink(out)
    r = tlc.run_tlc("MC_CritPath", cfg, env={"OUTFILE": out}, workers=16, timeout=1500)
    run.add_mc(r, cfg)
    seen, graphs = set(), []
    for rec in tlc.read_emitted(out):
        key = json.dumps([rec["E"], rec["lat"], rec["lds"]])
        if key not in seen:
            seen.add(key)
            graphs.append(rec)
    os.unlink(out)
    return graphs


def replay_critpath_graphs(run, pid, checks, graphs, seed, limit=None):
    """Instruction i writes its own register and reads the registers of its predecessors;
    mnemonic q<nsrc>l<lat-index>[m] selects the latency and a composed memory source (load stage)."""
    rnd = random.Random(seed + 5)
    if limit and len(graphs) > limit:
        rnd.shuffle(graphs)
        graphs = graphs[:limit]
    lats = sorted({l for g in graphs for l in g["lat"]})
    d = env.scratch("%s-cpg-%d" % (pid.lower(), os.getpid()))
    tasks = []
    for isa in ("x86", "aarch64"):
        fams = (["gpr:a", "gpr:b", "gpr:c", "gpr:d", "gpr:si"] if isa == "x86" else ["gp:1", "gp:2", "gp:3", "gp:4", "gp:5"])
        addr = "gpr:r12" if isa == "x86" else "gp:28"
        shapes = []
        for nsrc in range(0, 4):
            for li, l in enumerate(lats):
                for m in (False, True):
                    canon = ["s"] * nsrc + (["ms"] if m else []) + ["d"]
                    order = list(range(len(canon))) if isa == "x86" else [len(canon) - 1] + list(range(len(canon) - 1))
                    shapes.append(dict(name="q%dl%d%s" % (nsrc, li, "m" if m else ""), canon=canon,
                                       order={isa: order}, # a lone destination operand needs an ISA entry (default rule: single operand = source)
                                       in_db=(not m) and (nsrc == 0 or rnd.random() < 0.5),
                                       fr=[], fw=[], zero=False, vec=False, memform=m, wb=None,
                                       roles=[canon[i] for i in order], lat=l / dc.U))
        dc.write_synthetic_models(isa, shapes, d, pidx=2.0, fwd=0.0)
        _models(isa, d)
        byname = {s["name"]: s for s in shapes}
        items = []
        max_ops = 4 if isa == "x86" else 5      # what the parsers accept
        for gi, g in enumerate(graphs):
            if any(len([e for e in g["E"] if e[1] == i]) + (1 if g["lds"][i - 1] else 0) + 1 > max_ops
                   for i in range(1, g["n"] + 1)):
                continue   # not expressible as one instruction per node on this ISA
            instrs = []
            for i in range(1, g["n"] + 1):
                preds = sorted(e[0] for e in g["E"] if e[1] == i)
                name = "q%dl%d%s" % (len(preds), lats.index(g["lat"][i - 1]), "m" if g["lds"][i - 1] else "")
                args = [fams[p - 1] for p in preds] + ([addr] if g["lds"][i - 1] else []) + [fams[i - 1]]
                instrs.append(dc.gen_instr(isa, byname[name], rnd, args=args))
            k = dc.abstract_kernel(instrs, 2.0, 0.0, False)
            items.append(("%s:cpgraph:%s:%d" % (pid, isa, gi), dc.kernel_text(instrs), k, False,
                          {"meta": {"isa": isa, "src": "mc-critpath-graph", "shapes": [i["shape"] for i in instrs]},
                           "specBest": g["best"]}))
        step = max(1, len(items) // 7 + 1)
        for i in range(0, len(items), step):
            tasks.append(("syn", isa, d, items[i:i + step], checks))
    cases = observe_parallel(tasks)
    _SCRATCH.append(d)
    return cases


# ------------------------------------------------------------------------------------------
# C14: rotations of the loop body
# ------------------------------------------------------------------------------------------
def _long_rotation_kernel(isa, shapes, rnd):
    """50..57 lines (the multi-process LCD search): short dependency cycles on disjoint registers -
    among them one-instruction cycles - scattered over read-only filler lines, so that every rotation
    puts other cycles next to the cut of the body and at the end of the static root partition."""
    by = {s["name"]: s for s in shapes}
    ln = rnd.randint(50, 57)
    regs = list(dc.GPR_POOL[isa])
    rnd.shuffle(regs)
    blocks = []
    while len(regs) >= 1 and len(blocks) < 6:
        k = rnd.choice([1, 1, 2, 2, 3]) if len(regs) >= 2 else 1
        pool = [regs.pop() for _ in range(min(2, len(regs)) if k > 1 else 1)]
        blocks.append([dc.gen_instr(isa, by[rnd.choice(["opb", "opb", "opc", "opd"]) if k > 1 else "opb"], rnd, pool=pool,
                                    vpool=dc.VEC_POOL[isa][:2]) for _ in range(k)])
    nfill = ln - sum(len(b) for b in blocks)
    fill = [dc.gen_instr(isa, by["oph"], rnd, pool=dc.GPR_POOL[isa], vpool=dc.VEC_POOL[isa][:2]) for _ in range(nfill)]
    # blocks stay contiguous (a cycle inside a few neighbouring lines), their positions are random
    slots = sorted(rnd.sample(range(nfill + 1), len(blocks)))
    instrs, fi = [], 0
    for pos, b in zip(slots, blocks):
        instrs += fill[fi:pos]
        fi = pos
        instrs += b
    instrs += fill[fi:]
    return instrs


def rotation_cases(run, pid, seed, n_kernels, maxlen, all_offsets, archs_x86, archs_arm, max_shipped_rot=None, n_long=0, n_vocab=0):
    """Analyse every kernel at offset 0 and at rotation offsets; each rotated analysis becomes a
    `rot` case carrying the base kernel's observed doubled graph."""
    rnd = random.Random(seed * 31 + 3)
    tasks, dirs = [], []
    d = env.scratch("%s-rot-%d" % (pid.lower(), os.getpid()))
    dirs.append(d)
    groups = {}   # base id -> (n, [rot ids])

    def gaps(ls):
        # empty lines inside the body: the parsed kernel keeps the numbers of the file lines, so the line
        # numbers of the kernel have holes (every third kernel)
        if rnd.random() < 0.34 and len(ls) > 1:
            out = []
            for l in ls:
                out.append(l)
                if rnd.random() < 0.3:
                    out.append("")
            return out
        return ls

    def add(kind, isa, where, base_id, lines, meta, offsets):
        n = len(lines)
        items = [(base_id, "\n".join(gaps(lines)) + "\n", None, False, {"meta": meta})]
        for r in offsets:
            rot = lines[r:] + lines[:r]
            items.append(("%s|r%d" % (base_id, r), "\n".join(gaps(rot)) + "\n", None, False, {"meta": meta, "r": r}))
        groups[base_id] = (n, offsets)
        tasks.append((kind, isa, where, items, ("lcd",)))

    for isa in ("x86", "aarch64"):
        shapes = dc.synthetic_shapes(isa, rnd)
        dc.write_synthetic_models(isa, shapes, d, pidx=rnd.choice([1.0, 2.0]), fwd=0.0, hidden_loads=(rnd.random() < 0.5))
        _models(isa, d)
        for q in range(n_kernels // 2):
            ln = rnd.randint(2, maxlen)
            pool = rnd.sample(dc.GPR_POOL[isa], rnd.choice([2, 3]))
            use = shapes
            if rnd.random() < 0.5:
                use = [s for s in shapes if s["name"] in DENSE_SHAPES]
                ln = rnd.randint(min(4, maxlen), maxlen)
            instrs = [dc.gen_instr(isa, rnd.choice(use), rnd, pool=pool, vpool=rnd.sample(dc.VEC_POOL[isa], 2)) for _ in range(ln)]
            lines = ["\t" + i["text"] for i in instrs]
            offs = list(range(1, ln)) if all_offsets else sorted(rnd.sample(range(1, ln), min(ln - 1, 3)))
            add("syn", isa, d, "%s:rot:syn:%s:%d" % (pid, isa, q), lines,
                {"isa": isa, "src": "random-synthetic", "shapes": [i["shape"] for i in instrs]}, offs)
        for q in range(n_long):
            instrs = _long_rotation_kernel(isa, shapes, rnd)
            lines = ["\t" + i["text"] for i in instrs]
            ln = len(lines)
            offs = sorted(rnd.sample(range(1, ln), 12 if all_offsets else 4))
            add("syn", isa, d, "%s:rot:long:%s:%d" % (pid, isa, q), lines,
                {"isa": isa, "src": "long-synthetic", "shapes": [i["shape"] for i in instrs]}, offs)
    env.warm_models(archs_x86 + archs_arm)
    for name, isa, text in shipped_kernels(max_instr=45):
        lines = [l for l in text.split("\n") if l.strip()]
        if len(lines) < 2:
            continue
        for arch in (archs_x86 if isa == "x86" else archs_arm):
            offs = list(range(1, len(lines)))
            if not all_offsets:
                offs = sorted(rnd.sample(offs, min(len(offs), 3)))
            elif max_shipped_rot and len(offs) > max_shipped_rot:
                offs = sorted(rnd.sample(offs, max_shipped_rot))
            add("arch", isa, arch, "%s:rot:%s:%s" % (pid, arch, name), lines,
                {"isa": isa, "src": "shipped:" + arch, "shapes": [name]}, offs)
    # kernels over the curated vocabulary of real instructions (several forms of one mnemonic, implicit operands,
    # shifts, flags): whatever the analysis remembers about an instruction it has seen must not depend on which
    # line of the body comes first
    from harness import vocab

    for isa, archs in (("x86", archs_x86), ("aarch64", archs_arm)):
        for arch in archs:
            for q in range(n_vocab):
                gp, vec = vocab.pools(isa, rnd, ngp=rnd.choice([2, 3]), nvec=2)
                ln = rnd.randint(3, 7)
                instrs = [vocab.gen(isa, rnd, gp, vec) for _ in range(ln)]
                stems = vocab.multi_form_stems(isa)
                if stems and q % 2 == 0:
                    # every operand form of one mnemonic in one kernel, in random positions
                    forms = stems[rnd.choice(sorted(stems))]
                    for e in rnd.sample(forms, min(len(forms), ln)):
                        instrs[rnd.randrange(ln)] = vocab.gen(isa, rnd, gp, vec, entry=e)
                lines = ["\t" + i["text"] for i in instrs]
                offs = list(range(1, ln)) if all_offsets else sorted(rnd.sample(range(1, ln), min(ln - 1, 3)))
                add("arch", isa, arch, "%s:rot:vocab:%s:%d" % (pid, arch, q), lines,
                    {"isa": isa, "src": "vocab:" + arch, "shapes": [i["shape"] for i in instrs]}, offs)
    obs = observe_parallel(tasks)
    _SCRATCH.extend(dirs)
    byid = {c["id"]: c for c in obs}
    cases, errors = [], []
    for base_id, (n, offs) in groups.items():
        base = byid.get(base_id)
        if base is None or "error" in base:
            if base is not None:
                errors.append(base)
            continue
        cases.append(base)   # the base analysis itself is validated with the lcd clause
        for r in offs:
            rc = byid.get("%s|r%d" % (base_id, r))
            if rc is None:
                continue
            if "error" in rc:
                errors.append(rc)
                continue
            if rc["n"] != n:
                continue
            back = lambda p: ((p - 1 + r) % n) + 1
            c = dict(base)
            c["id"] = rc["id"]
            c["checks"] = ["rot"]
            c["r"] = r
            c["rotLcd"] = [[lat, sorted(back(p) for p in mem)] for lat, mem in rc["lcd"]]
            c["rotMax"] = rc["lcdMax"]
            c["rotText"] = rc["text"]
            cases.append(c)
    return cases + errors


# ------------------------------------------------------------------------------------------
# R3 (b): curated vocabulary of real instructions on shipped models
# ------------------------------------------------------------------------------------------
def random_vocab(run, pid, checks, seed, per_arch, maxlen, archs_x86, archs_arm):
    from harness import vocab

    env.warm_models(archs_x86 + archs_arm)
    rnd = random.Random(seed * 101 + 7)
    tasks = []
    for isa, archs in (("x86", archs_x86), ("aarch64", archs_arm)):
        for arch in archs:
            items = []
            for n in range(per_arch):
                gp, vec = vocab.pools(isa, rnd, rnd.choice([2, 3]), 2)
                instrs = [vocab.gen(isa, rnd, gp, vec) for _ in range(rnd.randint(1, maxlen))]
                fd = all(i["flags_known"] for i in instrs) and rnd.random() < 0.6
                k = dc.abstract_kernel(instrs, 1.0, 0.0, fd)
                items.append(("%s:vocab:%s:%d" % (pid, arch, n), dc.kernel_text(instrs, rnd), k, fd,
                              {"latFromObs": True,
                               "meta": {"isa": isa, "src": "vocab:" + arch, "shapes": [i["shape"] for i in instrs],
                                        "flagdeps": fd,
                                        "incomplete": [i["shape"] if i["db_flags_incomplete"] else "" for i in instrs]}}))
            tasks.append(("arch", isa, arch, items, checks))
    return observe_parallel(tasks)
