"""Synthetic machine models / ISA semantic databases and small drivers around the real OSACA
pipeline.  Everything here renders *from* abstract descriptions, so the abstraction of the
inputs is known by construction (DESIGN 3.4).  Models are written as JSON (a YAML subset)."""
import json
import os
import zlib

from harness import env


# ---------------------------------------------------------------------------- operand dicts
def reg(isa, cls, source=None, destination=None, shape=None):
    """Model/ISA-DB register operand.  x86: cls in gpr/xmm/ymm/zmm/mm; aarch64: prefix x/w/d/q/v/z/p."""
    d = {"class": "register"}
    if isa == "x86":
        d["name"] = cls
    else:
        d["prefix"] = cls
        if shape:
            d["shape"] = shape
    if source is not None:
        d["source"] = bool(source)
        d["destination"] = bool(destination)
    return d


def imd(source=None, destination=None, kind="int"):
    d = {"class": "immediate", "imd": kind}
    if source is not None:
        d["source"] = bool(source)
        d["destination"] = bool(destination)
    return d


def mem(isa, base="gpr", offset=None, index=None, scale=1, source=None, destination=None,
        pre_indexed=False, post_indexed=False):
    if isa == "aarch64" and base == "gpr":
        base = "x"
    d = {"class": "memory", "base": base, "offset": offset, "index": index, "scale": scale}
    if isa == "aarch64":
        d["pre_indexed"] = pre_indexed
        d["post_indexed"] = post_indexed
    if source is not None:
        d["source"] = bool(source)
        d["destination"] = bool(destination)
    return d


def flag(name, source, destination):
    return {"class": "flag", "name": name, "source": bool(source), "destination": bool(destination)}


# ---------------------------------------------------------------------------- writers
def write_arch_model(path, isa, ports, forms, load_throughput=(), store_throughput=(),
                     load_default=None, store_default=None, load_latency=None, extras=None):
    """forms: dicts with name, operands (list of operand dicts), throughput, latency,
    port_pressure (list of [cycles, ports] or {0: [...], 1: [...]}), optional uops."""
    default_lat = {"x86": {"gpr": 4.0, "mm": 4.0, "xmm": 4.0, "ymm": 4.0, "zmm": 4.0},
                   "aarch64": {k: 4.0 for k in "wxbhsdqvz"}}[isa]
    data = {
        "osaca_version": "0.5.0",
        "micro_architecture": "synthetic",
        "arch_code": "syn",
        # shipped models spell the ISA both ways (a64fx: AArch64, a72: aarch64); the code is
        # expected to compare it case-insensitively, so synthetic models use either spelling
        "isa": ({"aarch64": ["AArch64", "aarch64"], "x86": ["x86", "x86"]}[isa][zlib.crc32(os.path.basename(path).encode()) % 2]),
        "ROB_size": 100,
        "retired_uOps_per_cycle": 4,
        "scheduler_size": 60,
        "hidden_loads": False,
        "load_latency": load_latency if load_latency is not None else default_lat,
        "load_throughput": list(load_throughput),
        "load_throughput_default": load_default if load_default is not None else [],
        "store_throughput": list(store_throughput),
        "store_throughput_default": store_default if store_default is not None else [],
        "ports": list(ports),
        "port_model_scheme": "synthetic",
        "instruction_forms": list(forms),
    }
    if extras:
        data.update(extras)
    with open(path, "w") as f:
        json.dump(data, f, indent=0)
    return path


def write_isa_db(path, isa, forms):
    """forms: dicts with name, operands (with source/destination), optional hidden_operands,
    operation, breaks_dependency_on_equal_operands."""
    with open(path, "w") as f:
        json.dump({"osaca_version": "0.5.0", "isa": isa, "instruction_forms": list(forms)}, f, indent=0)
    return path


# ---------------------------------------------------------------------------- drivers
def load(arch_yaml, isa_yaml=None):
    from osaca.semantics import ArchSemantics, MachineModel
    from osaca.parser import ParserAArch64, ParserX86ATT

    mm = MachineModel(path_to_yaml=arch_yaml)
    sem = ArchSemantics(mm, path_to_yaml=isa_yaml)
    parser = ParserX86ATT() if mm.get_ISA() == "x86" else ParserAArch64()
    return mm, sem, parser


def load_arch(arch):
    """Shipped model through the sandbox (HOME/.osaca/data links /repo's YAML files)."""
    from osaca.semantics import ArchSemantics, MachineModel
    from osaca.parser import ParserAArch64, ParserX86ATT

    mm = MachineModel(arch=arch)
    sem = ArchSemantics(mm)
    parser = ParserX86ATT() if mm.get_ISA() == "x86" else ParserAArch64()
    return mm, sem, parser


def analyze(text, mm, sem, parser, passes=0, flag_deps=False, timeout=10, graph=True):
    """parse -> add_semantics -> `passes` x assign_optimal_throughput -> KernelDG.
    Returns (kernel, kernel_dg or None)."""
    from osaca.semantics import KernelDG

    kernel = parser.parse_file(text)
    sem.add_semantics(kernel)
    for _ in range(passes):
        sem.assign_optimal_throughput(kernel)
    dg = KernelDG(kernel, parser, mm, sem, timeout, flag_deps) if graph else None
    return kernel, dg


def edges_of(dg):
    """[(src_line, dst_line, latency)] with load-stage nodes as (line + 0.1)."""
    out = []
    for s, d in dg.dg.edges:
        out.append((s, d, dg.dg.edges[s, d]["latency"]))
    return sorted(out)


def scratch_dir(tag):
    return env.scratch(tag)
