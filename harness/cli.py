"""./check <Cxx> [--tier quick|thorough] [--replay FILE]

exit 0: the property held on everything explored (known findings are printed);
exit 1: a line `VIOLATION property=<id> replay=<path>` was printed;
exit 2: machinery failure (TLC crashed, sandbox could not be built)."""
import argparse
import importlib
import os
import sys
import traceback

HERE = os.path.dirname(os.path.abspath(__file__))
VERIF = os.path.dirname(HERE)
sys.path.insert(0, VERIF)


def main():
    ap = argparse.ArgumentParser()
    ap.add_argument("property")
    ap.add_argument("--tier", default=os.environ.get("VERIF_TIER", "quick"), choices=["quick", "thorough"])
    ap.add_argument("--replay", default=None)
    ap.add_argument("--seed", type=int, default=int(os.environ.get("VERIF_SEED", "0") or 0))
    a = ap.parse_args()
    pid = a.property.upper()
    os.chdir(VERIF)
    from harness import env

    env.activate()
    try:
        mod = importlib.import_module("harness.checks." + pid.lower())
    except ModuleNotFoundError:
        print("no check for %s" % pid)
        return 2
    try:
        if a.replay:
            return mod.replay(a.replay)
        return mod.main(a.tier, a.seed)
    except Exception:
        traceback.print_exc()
        print("MACHINERY-FAILURE property=%s" % pid)
        return 2


if __name__ == "__main__":
    sys.exit(main())
