"""Shared machinery of C17 (model caches are transparent) and helpers for C18.

Three parts:

* the *child server* (`child_main`): a fresh interpreter that imports osaca from the tree under
  test with HOME pointing into a throw-away sandbox, optionally substitutes the module-level
  collaborators of `osaca.semantics.hw_model` (`Path`, `open`, `os`, `pickle`) by wrappers that
  stop at every file-system interaction of the loader for ONE target model file and wait for
  the driver (nothing in /repo is edited), and performs analyses / model loads on command;
* the *sandbox*: real copies of model files, cache files discovered by listing directories
  (never by computing names), read-only data directory via chmod 555 + setpriv;
* the *driver*: executes an action path produced by TLC (MC_ModelCache: Emit) or a seeded
  history on the real code and records one event per action with what the implementation did
  next; the events are validated by specs/Trace_ModelCache.tla.

The projection is dumb on purpose: a report is mapped to the set of content ids whose
cache-less reference report is the same text; a cache file is absent / complete (unpickles) /
partial."""
import hashlib
import json
import os
import pickle
import re
import select
import shutil
import subprocess
import sys
import time

from harness import env

SETPRIV = ["setpriv", "--bounding-set=-dac_override,-dac_read_search",
           "--inh-caps=-dac_override,-dac_read_search"]
STEP_NAMES = ["hash", "probeC", "readC", "probeH", "readH", "parse", "rehash", "access", "open",
              "write", "rename"]
NCELLS = 4


# =========================================================================== targets
class Target:
    """One model file whose caches are exercised, with the kernel analysed through it."""

    def __init__(self, name, kind, arch, rel, kernel, edit):
        self.name = name  # e.g. "zen1" or "isa-x86"
        self.kind = kind  # "arch" | "isa"
        self.arch = arch  # --arch value of the analysis
        self.rel = rel  # path below ~/.osaca/data
        self.kernel = kernel
        self.edit = edit  # (bytes, content id) -> bytes
        self.stem = os.path.splitext(os.path.basename(rel))[0]


def _edit_latencies(raw, cid):
    """content 1 = shipped file; content 2 = every instruction latency + 3 cycles (changes CP and
    LCD columns of every kernel with a dependency chain); content 3 = shipped + a comment
    (different hash, same data)."""
    if cid == 1:
        return raw
    if cid == 3:
        return raw + b"\n# edited: comment only\n"
    txt = raw.decode("utf-8")

    changed = [0]

    def bump(m):
        # the edited file has the SAME LENGTH as the shipped one (with the time stamp kept by set_content this is what
        # `cp -p` / `rsync -t` of a revised model leaves behind): a latency is bumped only if its text keeps its length
        old = m.group(2)
        val = float(old) + 3.0 * (cid - 1)
        new = str(val) if "." in old else str(int(val))
        if len(new) != len(old):
            return m.group(0)
        changed[0] += 1
        return m.group(1) + new

    out, n = re.subn(r"(\blatency: *)(\d+(?:\.\d+)?)", bump, txt)
    assert n > 0 and changed[0] > 0
    return out.encode("utf-8")


def _edit_isa(mnemonics):
    def f(raw, cid):
        if cid == 1:
            return raw
        if cid == 3:
            return raw + b"\n# edited: comment only\n"
        txt = raw.decode("utf-8")
        n = 0
        for m in mnemonics:
            # the forms of these mnemonics disappear from the ISA database: their operands fall
            # back to "last operand is the only destination", which changes the dependencies
            txt, k = re.subn(r"(- name: *\[?\"?)%s\b" % re.escape(m), r"\1zz%s" % m, txt)
            n += k
        assert n > 0
        return txt.encode("utf-8")

    return f


def _ex(*parts):
    return os.path.join(env.REPO, *parts)


def targets():
    zen = _ex("examples", "triad", "triad.s.zen.gcc.s")
    arm = _ex("examples", "triad", "triad.s.tx2.gcc.s")
    gs_arm = _ex("examples", "gs", "gs.s.tx2.gcc.s")
    gs_zen = _ex("examples", "gs", "gs.s.zen.gcc.s")
    return {
        "zen1": Target("zen1", "arch", "zen1", "zen1.yml", zen, _edit_latencies),
        "n1": Target("n1", "arch", "n1", "n1.yml", arm, _edit_latencies),
        "tx2": Target("tx2", "arch", "tx2", "tx2.yml", arm, _edit_latencies),
        "zen4": Target("zen4", "arch", "zen4", "zen4.yml", zen, _edit_latencies),
        "isa-x86": Target("isa-x86", "isa", "zen1", "isa/x86.yml", zen, _edit_isa(["sub", "add", "cmp"])),
        "isa-aarch64": Target("isa-aarch64", "isa", "n1", "isa/aarch64.yml", arm,
                              _edit_isa(["fmla", "add", "subs", "cmp", "ldr", "ldp"])),
    }


API_MODELS_QUICK = ["zen1", "zen4", "n1", "tx2", "a64fx"]   # zen4: register-typed load/store rows (dst: / src:)
API_MODELS_THOROUGH = ["zen1", "zen4", "spr", "zen3", "n1", "tx2", "a64fx", "a72", "tsv110", "m1", "v2"]


def api_target(name):
    """Model file exercised at API level (digest of the loaded data instead of a report)."""
    if name.startswith("isa-"):
        return Target(name, "isa", None, "isa/%s.yml" % name[4:], None, _edit_isa(["add"]))
    return Target(name, "arch", name, name + ".yml", None, _edit_latencies)


# =========================================================================== report / digest
def normalise(report):
    """Report text minus the timestamp line."""
    return "\n".join(l for l in report.splitlines() if not l.startswith("Timestamp:"))


def canon(o):
    if isinstance(o, dict):
        return ("d", sorted((repr(str(k)) if isinstance(k, str) else repr(k), canon(v)) for k, v in o.items()))
    if isinstance(o, (list, tuple)):
        return ("l", [canon(x) for x in o])
    if isinstance(o, bool) or o is None:
        return repr(o)
    if isinstance(o, int):
        return repr(int(o))
    if isinstance(o, float):
        return repr(float(o))
    if isinstance(o, str):
        return repr(str(o))
    if isinstance(o, (set, frozenset)):
        return ("s", sorted(repr(canon(x)) for x in o))
    if hasattr(o, "__dict__"):
        return ("o", type(o).__name__, canon(vars(o)))
    return repr(o)


def data_digest(data):
    return hashlib.sha256(repr(canon(data)).encode()).hexdigest()[:24]


# =========================================================================== child server
def child_main():
    """Runs inside the child interpreter.  Configuration in $CACHE_CHILD (JSON):
    target (absolute path of the hooked model file or null), mode "cli"|"api", argv (cli),
    load (api: {"arch": ..} or {"path": ..}), hooks (bool)."""
    cfg = json.loads(os.environ["CACHE_CHILD"])
    proto = os.fdopen(os.dup(1), "w", buffering=1)
    os.dup2(2, 1)  # anything the code under test prints goes to stderr
    sys.stdout = sys.stderr
    import warnings

    warnings.filterwarnings("ignore")
    import io
    import pathlib
    import traceback

    import osaca.semantics.hw_model as hw

    assert os.path.realpath(hw.__file__).startswith(os.path.realpath(env.REPO)), hw.__file__
    target = cfg.get("target")
    st = {"free": not cfg.get("hooks"), "active": False, "nread": 0, "naccess": 0, "nwrite": 0}

    def at(name):
        if st["free"]:
            return
        proto.write("AT %s\n" % name)
        cmd = sys.stdin.readline().strip()
        if cmd == "crash" or cmd == "":
            os._exit(77)
        if cmd == "free":
            st["free"] = True

    if cfg.get("hooks") and target:
        tparent = os.path.dirname(target)
        real_pickle, real_os, real_open = hw.pickle, hw.os, open

        class HookPath(pathlib.PosixPath):
            def read_bytes(self):
                if st["active"] and str(self) == target:
                    at("hash" if st["nread"] == 0 else "rehash")
                    st["nread"] += 1
                return super().read_bytes()

            def exists(self, **kw):
                if st["active"] and self.suffix == ".pickle":
                    at("probeC" if str(self.parent) == tparent else "probeH")
                return super().exists(**kw)

            def open(self, mode="r", *a, **k):
                if st["active"] and self.suffix == ".pickle":
                    if "r" in mode:
                        at("readC" if str(self.parent) == tparent else "readH")
                    else:
                        at("open")
                return super().open(mode, *a, **k)

        def path_factory(*a, **k):
            p = HookPath(*a, **k)
            if len(a) == 1 and not isinstance(a[0], HookPath):
                # Path(filepath) at the start of _get_cached / _write_in_cache; Path(CACHE_DIR)
                if str(p) == target:
                    st["active"] = True
                elif str(p) != hw.utils.CACHE_DIR:
                    st["active"] = False
            return p

        def hooked_open(file, mode="r", *a, **k):
            if str(file) == target and "r" in mode and "b" not in mode:
                lazy = sys._getframe(1).f_locals.get("lazy")
                if not lazy:
                    at("parse")
            return real_open(file, mode, *a, **k)

        class OsProxy:
            def __getattr__(self, n):
                return getattr(real_os, n)

            def access(self, *a, **k):
                if st["active"]:
                    if st["naccess"] == 0:
                        at("access")
                    st["naccess"] += 1
                return real_os.access(*a, **k)

            def replace(self, *a, **k):
                if st["active"]:
                    at("rename")
                return real_os.replace(*a, **k)

            def rename(self, *a, **k):
                if st["active"]:
                    at("rename")
                return real_os.rename(*a, **k)

        class PickleProxy:
            def __getattr__(self, n):
                return getattr(real_pickle, n)

            def dump(self, obj, f, *a, **k):
                if not st["active"] or st["free"]:
                    return real_pickle.dump(obj, f, *a, **k)
                data = real_pickle.dumps(obj, *a, **k)
                cuts = cut_offsets(len(data)) + [len(data)]
                for i in range(NCELLS):
                    at("write")
                    f.write(data[cuts[i]:cuts[i + 1]])
                    f.flush()

        hw.Path = path_factory
        hw.open = hooked_open
        hw.os = OsProxy()
        hw.pickle = PickleProxy()

    def one_run():
        st["nread"] = st["naccess"] = 0
        st["active"] = False
        st["free"] = not cfg.get("hooks")
        try:
            if cfg["mode"] == "cli":
                from osaca import osaca as oo

                parser = oo.create_parser()
                args = parser.parse_args(cfg["argv"])
                oo.check_arguments(args, parser)
                buf = io.StringIO()
                try:
                    oo.run(args, output_file=buf)
                finally:
                    args.file.close()
                return {"ok": True, "out": buf.getvalue()}
            from osaca.semantics import MachineModel

            ld = cfg["load"]
            mm = MachineModel(arch=ld["arch"]) if ld.get("arch") else MachineModel(path_to_yaml=ld["path"])
            return {"ok": True, "out": data_digest(mm._data)}
        except BaseException as ex:  # noqa
            tb = traceback.format_exc()
            where = "other"
            if "_get_cached" in tb and "pickle.load" in tb:
                where = "cache-read"
            elif "_write_in_cache" in tb:
                where = "cache-write"
            return {"ok": False, "exc": type(ex).__name__, "where": where, "tb": tb[-1500:]}

    proto.write("READY\n")
    while True:
        cmd = sys.stdin.readline().strip()
        if cmd == "run":
            res = one_run()
            proto.write("DONE " + json.dumps(res) + "\n")
        elif cmd == "free":
            st["free"] = True
        else:
            break
    os._exit(0)


def cut_offsets(n):
    """Start offsets of the 4 cells of a cache file of n bytes: header | first half | second half
    | last byte.  A file cut after k cells has cut_offsets(n)[k] bytes (k = 0..3: 0 bytes, header
    only, mid-stream, last byte missing)."""
    hdr = min(11, max(n - 3, 0))
    return [0, hdr, max(n // 2, hdr), max(n - 1, 0)]


# =========================================================================== driver side
class Child:
    """Driver-side handle of one child server."""

    def __init__(self, home, cfg, timeout=180):
        e = env.child_env(home, {"CACHE_CHILD": json.dumps(cfg)})
        self.timeout = timeout
        self.errpath = os.path.join(home, ".child-%d-%d.err" % (os.getpid(), id(self)))
        self.err = open(self.errpath, "wb")
        self.p = subprocess.Popen(
            SETPRIV + [env.PY, "-B", "-c", "from harness.cache_common import child_main; child_main()"],
            env=e, cwd="/", stdin=subprocess.PIPE, stdout=subprocess.PIPE, stderr=self.err)
        self.buf = b""
        self.state = None
        m = self.recv()
        if m[0] != "READY":
            raise RuntimeError("child did not start: %r %s" % (m, self.stderr_tail()))

    def stderr_tail(self):
        try:
            with open(self.errpath, "rb") as f:
                return f.read()[-1500:].decode("utf-8", "replace")
        except OSError:
            return ""

    def send(self, cmd):
        try:
            self.p.stdin.write((cmd + "\n").encode())
            self.p.stdin.flush()
        except (BrokenPipeError, OSError):
            pass

    def recv(self):
        """-> ("READY",) | ("AT", name) | ("DONE", dict) | ("EOF", returncode)"""
        deadline = time.time() + self.timeout
        while b"\n" not in self.buf:
            left = deadline - time.time()
            if left <= 0:
                self.kill()
                raise RuntimeError("child timeout; stderr: " + self.stderr_tail())
            r, _, _ = select.select([self.p.stdout], [], [], left)
            if not r:
                continue
            chunk = os.read(self.p.stdout.fileno(), 1 << 16)
            if not chunk:
                rc = self.p.wait()
                self.state = ("EOF", rc)
                return self.state
            self.buf += chunk
        line, self.buf = self.buf.split(b"\n", 1)
        line = line.decode("utf-8", "replace")
        if line.startswith("AT "):
            self.state = ("AT", line[3:].strip())
        elif line.startswith("DONE "):
            self.state = ("DONE", json.loads(line[5:]))
        else:
            self.state = (line.strip(),)
        return self.state

    def kill(self):
        try:
            self.p.kill()
        except OSError:
            pass
        self.p.wait()

    def close(self):
        if self.p.poll() is None:
            self.send("exit")
            try:
                self.p.wait(timeout=20)
            except subprocess.TimeoutExpired:
                self.kill()
        for s in (self.p.stdin, self.p.stdout, self.err):
            try:
                s.close()
            except OSError:
                pass
        try:
            os.unlink(self.errpath)
        except OSError:
            pass


class Sandbox:
    """A HOME with ~/.osaca/data holding real copies of model files."""

    def __init__(self, home):
        self.home = home
        self.data = os.path.join(home, ".osaca", "data")
        self.cache = os.path.join(home, ".osaca", "cache")

    @staticmethod
    def create(home, models, isas=("x86", "aarch64")):
        sb = Sandbox(home)
        if os.path.isdir(home):
            Sandbox(home).destroy()
        os.makedirs(os.path.join(sb.data, "isa"))
        src = os.path.join(env.REPO, "osaca", "data")
        for m in models:
            shutil.copyfile(os.path.join(src, m + ".yml"), os.path.join(sb.data, m + ".yml"))
        for i in isas:
            shutil.copyfile(os.path.join(src, "isa", i + ".yml"), os.path.join(sb.data, "isa", i + ".yml"))
        return sb

    def clone(self, home):
        if os.path.isdir(home):
            Sandbox(home).destroy()
        shutil.copytree(self.home, home, symlinks=True)
        return Sandbox(home)

    def destroy(self):
        for root, dirs, _ in os.walk(self.home):
            for d in dirs:
                try:
                    os.chmod(os.path.join(root, d), 0o755)
                except OSError:
                    pass
        shutil.rmtree(self.home, ignore_errors=True)

    def path(self, t):
        return os.path.join(self.data, t.rel)

    def dir_of(self, t):
        return os.path.dirname(self.path(t))

    def set_content(self, t, raw):
        tmp = self.path(t) + ".tmp-edit"
        with open(tmp, "wb") as f:
            f.write(raw)
        try:
            # the revision keeps the time stamp of the file it replaces (archives, `cp -p`, `rsync -t`): only the
            # content tells the two apart
            st = os.stat(self.path(t))
            os.utime(tmp, ns=(st.st_atime_ns, st.st_mtime_ns))
        except OSError:
            pass
        os.replace(tmp, self.path(t))

    def set_writable(self, t, w):
        os.chmod(self.dir_of(t), 0o755 if w else 0o555)

    def cache_files(self, t):
        """Every non-model file in the target's directory / the home cache whose name mentions
        the target's stem: {"comp": {name: bytes-size}, "home": {...}}."""
        out = {"comp": [], "home": []}
        for w, d in (("comp", self.dir_of(t)), ("home", self.cache)):
            if os.path.isdir(d):
                names = sorted(os.listdir(d))
                if w == "home":
                    # wherever below ~/.osaca/cache the loader keeps its files (names relative to the cache directory)
                    names = sorted(os.path.relpath(os.path.join(r, f), d) for r, _, fs in os.walk(d) for f in fs)
                for n in names:
                    p = os.path.join(d, n)
                    b = os.path.basename(n)
                    if os.path.isfile(p) and t.stem in b and not b.endswith(".yml") and ".tmp-edit" not in b \
                            and not b.startswith(".child-"):
                        out[w].append(n)
        return out

    def remove_caches(self, t):
        cf = self.cache_files(t)
        for n in cf["comp"]:
            os.unlink(os.path.join(self.dir_of(t), n))
        for n in cf["home"]:
            os.unlink(os.path.join(self.cache, n))

    def where_dir(self, t, w):
        return self.dir_of(t) if w == "comp" else self.cache


def child_cfg(t, sb, mode, hooks):
    cfg = {"target": sb.path(t), "mode": mode, "hooks": bool(hooks)}
    if mode == "cli":
        cfg["argv"] = ["--arch", t.arch, t.kernel]
    else:
        cfg["load"] = {"arch": t.arch} if t.kind == "arch" else {"path": sb.path(t)}
    return cfg


def free_run(t, sb, mode, runs=1):
    """One fresh process, no hooks: `runs` analyses / loads.  -> list of result dicts."""
    ch = Child(sb.home, child_cfg(t, sb, mode, False))
    out = []
    try:
        for _ in range(runs):
            ch.send("run")
            m = ch.recv()
            if m[0] != "DONE":
                out.append({"ok": False, "exc": "ChildDied", "where": "other", "tb": ch.stderr_tail()})
                break
            out.append(m[1])
    finally:
        ch.close()
    return out


class Prepared:
    """References and building blocks for one target, all obtained from the code under test in
    pristine sandboxes: ref[c] cache-less result for content c, pick[c] the cache file that run
    wrote, names[c][w] the file name used in the companion directory / home cache."""

    def __init__(self, t, mode):
        self.t = t
        self.mode = mode
        self.contents = {}
        self.ref = {}
        self.pick = {}
        self.names = {}
        self.old = {}
        self.template = None
        self.problems = []

    def result_ids(self, out):
        key = normalise(out) if self.mode == "cli" else out
        return sorted(c for c, r in self.ref.items() if r == key)


def prepare(t, root, mode="cli", ncontents=2, models=None):
    """Build the pristine references for target t below directory `root`."""
    pr = Prepared(t, mode)
    models = models or sorted({t.arch} if t.arch else set())
    if t.kind == "arch" and t.arch not in models:
        models.append(t.arch)
    isas = ("x86", "aarch64") if mode == "cli" or t.kind == "isa" else ()
    base = Sandbox.create(os.path.join(root, "tmpl-" + t.name), models, isas)
    raw = open(base.path(t), "rb").read()
    for c in range(1, ncontents + 1):
        pr.contents[c] = t.edit(raw, c)
    def one_content(c, sb):
        if c > 1:
            sb.remove_caches(t)
            sb.set_content(t, pr.contents[c])
        r = free_run(t, sb, mode)[0]  # cache-less for the target (content 1: for every file)
        if not r["ok"]:
            raise RuntimeError("reference run failed for %s content %d: %s" % (t.name, c, r.get("tb")))
        pr.ref[c] = normalise(r["out"]) if mode == "cli" else r["out"]
        cf = sb.cache_files(t)
        pr.names[c] = {}
        if len(cf["comp"]) == 1:
            pr.names[c]["comp"] = cf["comp"][0]
            with open(os.path.join(sb.dir_of(t), cf["comp"][0]), "rb") as f:
                pr.pick[c] = f.read()
        else:
            pr.problems.append("content %d: companion cache files after a cold run: %r" % (c, cf))
        # home cache name: same content, read-only directory, no companion
        hb = sb.clone(os.path.join(root, "refh-%s-%d" % (t.name, c)))
        # second run (served from the cache just written) must agree: determinism of the reference
        r2 = free_run(t, sb, mode)[0]
        if not r2["ok"] or (normalise(r2["out"]) if mode == "cli" else r2["out"]) != pr.ref[c]:
            pr.problems.append("content %d: warm run differs from cold run in a pristine sandbox" % c)
        hb.remove_caches(t)
        hb.set_writable(t, False)
        r3 = free_run(t, hb, mode)[0]
        cf = hb.cache_files(t)
        if r3["ok"] and len(cf["home"]) == 1 and not cf["comp"]:
            pr.names[c]["home"] = cf["home"][0]
        else:
            pr.problems.append("content %d: home cache files after a cold run with read-only data dir: %r %s"
                               % (c, cf, r3.get("exc")))
        hb.destroy()
        if c > 1:
            sb.destroy()

    # content 1 first (its run also warms the caches of the other files), the others in parallel
    one_content(1, base)
    import concurrent.futures

    with concurrent.futures.ThreadPoolExecutor(max_workers=4) as ex:
        futs = [ex.submit(one_content, c, base.clone(os.path.join(root, "ref-%s-%d" % (t.name, c))))
                for c in range(2, ncontents + 1)]
        for f in futs:
            f.result()
    base.remove_caches(t)
    pr.template = base
    return pr


def make_old_version(pr):
    """Cache files of format version 0 holding the data of ANOTHER content (so that serving one
    is visible in the report).  Needs osaca importable in this interpreter."""
    for c in pr.contents:
        other = next(x for x in sorted(pr.contents) if x != c and pr.ref[x] != pr.ref[c])
        data = pickle.loads(pr.pick[other])
        # the payload layout is the loader's business: a mapping with the version, a container holding such a
        # mapping, or something else - then a bare version-0 mapping stands in (no loader may serve it)
        target = data if isinstance(data, dict) else next(
            (x for x in (data if isinstance(data, (list, tuple)) else ()) if isinstance(x, dict) and "internal_version" in x), None)
        if target is not None and "internal_version" in target:
            # a file of another format version - older for odd contents, NEWER for even ones - holds other data
            target["internal_version"] = 0 if c % 2 else int(target["internal_version"]) + 1
            pr.old[c] = pickle.dumps(data)
        else:
            pr.old[c] = pickle.dumps({"internal_version": 0})
            pr.notes = getattr(pr, "notes", []) + ["cache payload of %s is no mapping with internal_version: bare version-0 file used" % pr.t.name]


def kind_of(sb, pr, c, w):
    n = pr.names.get(c, {}).get(w)
    if not n:
        return ""
    p = os.path.join(sb.where_dir(pr.t, w), n)
    if not os.path.exists(p):
        return "absent"
    try:
        with open(p, "rb") as f:
            pickle.load(f)
        return "complete"
    except Exception:
        return "partial"


def event(a, p=0, x=0, nx="", res=(), ck="", hk=""):
    return {"a": a, "p": int(p), "x": int(x), "nx": nx, "res": list(res), "ck": ck, "hk": hk}


class PathRunner:
    """Executes one abstract action path on a private sandbox and records events."""

    def __init__(self, pr, home, observe_kinds=True):
        self.pr = pr
        self.t = pr.t
        self.sb = pr.template.clone(home)
        self.children = {}
        self.cur = 1
        self.writable = True
        self.events = []
        self.fails = []  # details of failed runs (exception, where)
        self.observe_kinds = observe_kinds

    # ---- observations
    def _kinds(self):
        if not self.observe_kinds:
            return "", ""
        return kind_of(self.sb, self.pr, self.cur, "comp"), kind_of(self.sb, self.pr, self.cur, "home")

    def _after(self, p, m):
        """Translate the child's message into (nx, res)."""
        if m[0] == "AT":
            return m[1], ()
        if m[0] == "DONE":
            d = m[1]
            if d["ok"]:
                return "done", self.pr.result_ids(d["out"])
            self.fails.append({"p": p, "exc": d.get("exc"), "where": d.get("where"), "tb": d.get("tb"),
                               "event": len(self.events)})
            return "failed", ()
        return "crashed", ()

    def _log(self, a, p=0, x=0, nx="", res=()):
        ck, hk = self._kinds()
        self.events.append(event(a, p, x, nx, res, ck, hk))

    # ---- actions
    def do(self, a, p=0, x=0):
        t, sb, pr = self.t, self.sb, self.pr
        if a in ("start", "reload"):
            ch = self.children.get(p)
            if a == "start" or ch is None or ch.p.poll() is not None:
                if ch is not None:
                    ch.close()
                ch = self.children[p] = Child(sb.home, child_cfg(t, sb, pr.mode, True))
            ch.send("run")
            nx, res = self._after(p, ch.recv())
            self._log(a, p, 0, nx, res)
        elif a in STEP_NAMES or a == "free":
            ch = self.children.get(p)
            if ch is None or ch.state is None or ch.state[0] != "AT":
                # the implementation is not waiting at a step (finished earlier than the model): skip
                self._log("noop", p, 0, "", ())
                return
            if a != "free" and ch.state[1] != a:
                # not the step the model takes: let the process run on freely (a legal schedule)
                a = "free"
            ch.send("free" if a == "free" else "go")
            nx, res = self._after(p, ch.recv())
            self._log(a, p, x if a == "write" else 0, nx, res)
        elif a == "crash":
            ch = self.children.get(p)
            if ch is not None and ch.state and ch.state[0] == "AT":
                ch.send("crash")
                ch.recv()
            elif ch is not None:
                ch.kill()
            if ch is not None:
                ch.close()
                del self.children[p]
            self._log("crash", p, 0, "crashed", ())
        elif a == "exit":
            ch = self.children.pop(p, None)
            if ch is not None:
                ch.close()
            self._log("exit", p, 0, "exited", ())
        elif a == "edit":
            self.cur = x
            sb.set_content(t, pr.contents[x])
            self._log("edit", 0, x)
        elif a == "toggle":
            self.writable = not self.writable
            sb.set_writable(t, self.writable)
            self._log("toggle")
        elif a == "foreign":
            os.makedirs(sb.cache, exist_ok=True)
            os.makedirs(os.path.dirname(os.path.join(sb.cache, pr.names[x]["home"])), exist_ok=True)
            with open(os.path.join(sb.cache, pr.names[x]["home"]), "wb") as f:
                f.write(pr.pick[x])
            self._log("foreign", 0, x)
        elif a == "oldversion":
            w = "comp" if x == 1 else "home"
            os.makedirs(os.path.dirname(os.path.join(sb.where_dir(t, w), pr.names[self.cur][w])), exist_ok=True)
            with open(os.path.join(sb.where_dir(t, w), pr.names[self.cur][w]), "wb") as f:
                f.write(pr.old[self.cur])
            self._log("oldversion", 0, x)
        elif a == "legacy":
            w = "comp" if x == 1 else "home"
            os.makedirs(os.path.dirname(os.path.join(sb.where_dir(t, w), pr.names[self.cur][w])), exist_ok=True)
            data = pr.pick[self.cur]
            with open(os.path.join(sb.where_dir(t, w), pr.names[self.cur][w]), "wb") as f:
                f.write(data[:cut_offsets(len(data))[p]])
            self._log("legacy", p, x)
        elif a == "load":
            # one whole run in a fresh process without any hooks
            res = free_run(t, sb, pr.mode)[0]
            nx, ids = self._after(p, ("DONE", res))
            self._log("load", p, 0, nx, ids)
        elif a == "crashload":
            # a fresh process that is killed after x cells of the cache file are written
            ch = Child(sb.home, child_cfg(t, sb, pr.mode, True))
            ch.send("run")
            m = ch.recv()
            written = 0
            while m[0] == "AT":
                if m[1] == "write":
                    if written == x:
                        break
                    written += 1
                ch.send("go")
                m = ch.recv()
            if m[0] == "AT":
                ch.send("crash")
                ch.recv()
                nx, ids = "crashed", ()
            else:
                nx, ids = self._after(p, m)
            ch.close()
            self._log("crashload", p, x, nx, ids)
        elif a == "race":
            # p processes cold-start at the same moment (real concurrency, no hooks)
            chs = [Child(sb.home, child_cfg(t, sb, pr.mode, False)) for _ in range(p)]
            for ch in chs:
                ch.send("run")
            outs = [ch.recv() for ch in chs]
            for ch in chs:
                ch.close()
            for m in outs:
                nx, ids = self._after(1, m)
                self._log("rload", 1, 0, nx, ids)
        else:
            raise ValueError(a)

    def finish(self):
        """Release every process still waiting at a step, then let all exit."""
        for p, ch in sorted(self.children.items()):
            if ch.state and ch.state[0] == "AT":
                self.do("free", p)
        for p in sorted(self.children):
            self.do("exit", p)
        self.events = [e for e in self.events if e["a"] != "noop"]

    def cleanup(self):
        for ch in self.children.values():
            ch.kill()
            ch.close()
        self.sb.destroy()


def run_path(pr, path, home):
    """path: list of (a, p, x).  -> (events, fails)"""
    r = PathRunner(pr, home)
    try:
        for a, p, x in path:
            r.do(a, p, x)
        r.finish()
        return r.events, r.fails
    finally:
        r.cleanup()


# =========================================================================== TLC helpers
def last_hist(raw):
    """The hist value of the last state of a TLC error trace -> list of (a, p, x)."""
    from harness import tlc

    i = raw.rfind("/\\ hist = ")
    if i < 0:
        return []
    j = i + len("/\\ hist = ")
    depth = 0
    k = j
    while k < len(raw):
        if raw.startswith("<<", k):
            depth += 1
            k += 2
            continue
        if raw.startswith(">>", k):
            depth -= 1
            k += 2
            if depth == 0:
                break
            continue
        k += 1
    v = tlc.parse_tuple(raw[j:k])
    return [(e["a"], e["p"], e["x"]) for e in v]


def printed_tuples(raw, tag):
    """All values <<"tag", ...>> printed by TLC, also when TLC wrapped them over several lines
    (values longer than ~80 characters are pretty-printed; tlc.batch_validate would miss them)."""
    from harness import tlc

    out = []
    for m in re.finditer(r'<<\s*"%s"' % re.escape(tag), raw):
        depth, k = 0, m.start()
        while k < len(raw):
            if raw.startswith("<<", k):
                depth += 1
                k += 2
            elif raw.startswith(">>", k):
                depth -= 1
                k += 2
                if depth == 0:
                    break
            elif raw[k] == '"':
                k += 1
                while raw[k] != '"':
                    k += 2 if raw[k] == "\\" else 1
                k += 1
            else:
                k += 1
        out.append(tlc.parse_tuple(raw[m.start():k]))
    return out


def maximal_paths(recs):
    paths = {tuple((e["a"], e["p"], e["x"]) for e in r["path"]) for r in recs}
    pref = set()
    for p in paths:
        for i in range(1, len(p)):
            pref.add(p[:i])
    return sorted(p for p in paths if p not in pref)
