"""Shared machinery of C09 (x86 AT&T parser) and C10 (AArch64 parser).

Division of labour (DESIGN 3.4, 5 C09/C10):
  * specs/AsmSyntax.tla defines the abstract surface AST of operands and Canon(ast), the
    denotation the parser must return; specs/ParseFile.tla the line-level state machine.
    TLC enumerates the operand-kind lattice and all files <= N lines (R1) and emits them (R2).
  * harness/asm_render.py turns an AST into text with a seeded layout (trusted, dumb).
  * this module drives the real parser (parse_line and parse_file), projects the returned
    operand objects field by field to JSON (trusted, dumb: no OSACA code interprets OSACA
    results) and lets Trace_AsmSyntax / Trace_ParseFile decide (expected values are computed by
    TLC from the AST, never by Python).
"""
import decimal
import glob
import json
import os
import random

from harness import asm_render as R
from harness import tlc
from harness.verdict import Run

# ------------------------------------------------------------------ projection (abstraction)


def _cls(o):
    return type(o).__name__


def _int_str(v):
    """decimal string of an integer-valued immediate; None if the value is not an integer"""
    if isinstance(v, bool):
        return None
    if isinstance(v, int):
        return str(v)
    return None


def _dec_norm(d):
    """normalised decimal (neg, digit string, exponent) of a decimal.Decimal"""
    d = d.normalize()
    sign, digits, exp = d.as_tuple()
    ds = "".join(str(x) for x in digits).lstrip("0")
    if ds == "":
        return {"neg": False, "digs": "", "exp": 0}
    return {"neg": bool(sign), "digs": ds, "exp": int(exp)}


def _other(o):
    return {"k": "other", "repr": "%s:%s" % (_cls(o), str(o)[:200])}


def proj_imm(o):
    v = o.value
    s = _int_str(v)
    if s is not None:
        return {"k": "imm", "val": s}
    # floating point spellings: textual mantissa, or {mantissa, e_sign, exponent}, or a float
    try:
        if isinstance(v, str):
            d = decimal.Decimal(v)
        elif isinstance(v, dict) and "mantissa" in v:
            d = decimal.Decimal(v["mantissa"])
            if "exponent" in v:
                e = int(v["exponent"])
                if v.get("e_sign", "+") == "-":
                    e = -e
                d = d.scaleb(e)
        elif isinstance(v, float):
            d = decimal.Decimal(repr(v))
        else:
            return _other(o)
    except (decimal.InvalidOperation, ValueError, TypeError):
        return _other(o)
    r = {"k": "fimm"}
    r.update(_dec_norm(d))
    return r


def proj_x86(o):
    c = _cls(o)
    if c == "RegisterOperand":
        if not isinstance(o.name, str):
            return _other(o)
        return {"k": "reg", "name": o.name}
    if c == "ImmediateOperand":
        return proj_imm(o)
    if c == "IdentifierOperand":
        if not isinstance(o.name, str):
            return _other(o)
        return {"k": "ident", "name": o.name}
    if c == "MemoryOperand":
        disp = []
        if o.offset is not None:
            d = proj_x86(o.offset) if _cls(o.offset) in ("ImmediateOperand", "IdentifierOperand") else _other(o.offset)
            if d["k"] not in ("imm", "ident"):
                return _other(o)
            disp = [d]
        base, index = [], []
        if o.base is not None:
            if _cls(o.base) != "RegisterOperand" or not isinstance(o.base.name, str):
                return _other(o)
            base = [o.base.name]
        if o.index is not None:
            if _cls(o.index) != "RegisterOperand" or not isinstance(o.index.name, str):
                return _other(o)
            index = [o.index.name]
        if isinstance(o.scale, bool) or not isinstance(o.scale, int):
            return _other(o)
        if o.segment_ext is not None:
            return _other(o)
        return {"k": "mem", "disp": disp, "base": base, "index": index, "scale": o.scale}
    return _other(o)


def _opt_str(v):
    return "" if v is None else str(v)


def _a64_reg(o):
    if _cls(o) != "RegisterOperand" or o.prefix is None or o.name is None:
        return None
    idx = -1
    if o.index is not None:
        try:
            idx = int(str(o.index), 0)
        except ValueError:
            return None
    return {"k": "reg", "prefix": str(o.prefix).lower(), "name": str(o.name).lower(),
            "lanes": _opt_str(o.lanes), "shape": _opt_str(o.shape).lower(), "index": idx,
            "pred": _opt_str(o.predication).lower()}


def proj_a64(o):
    c = _cls(o)
    if c == "RegisterOperand":
        r = _a64_reg(o)
        return r if r is not None else _other(o)
    if c == "ImmediateOperand":
        return proj_imm(o)
    if c == "IdentifierOperand":
        if not isinstance(o.name, str) or o.offset is not None or o.relocation is not None:
            return _other(o)
        return {"k": "ident", "name": o.name}
    if c == "ConditionOperand":
        if not isinstance(o.ccode, str):
            return _other(o)
        return {"k": "cond", "cc": o.ccode.upper()}
    if c == "MemoryOperand":
        off = ""
        if o.offset is not None:
            if _cls(o.offset) != "ImmediateOperand" or _int_str(o.offset.value) is None:
                return _other(o)
            off = _int_str(o.offset.value)
        b = _a64_reg(o.base) if o.base is not None else None
        if b is None:
            return _other(o)
        idx = []
        if o.index is not None:
            i = _a64_reg(o.index)
            if i is None:
                return _other(o)
            idx = [{"prefix": i["prefix"], "name": i["name"]}]
        if isinstance(o.scale, bool) or not isinstance(o.scale, int):
            return _other(o)
        post = ""
        pi = o.post_indexed
        if pi:
            if isinstance(pi, dict) and _int_str(pi.get("value")) is not None:
                post = _int_str(pi["value"])
            elif isinstance(pi, int) and not isinstance(pi, bool):
                post = str(pi)
            else:
                return _other(o)
        return {"k": "mem", "off": off, "base": {"prefix": b["prefix"], "name": b["name"]}, "idx": idx,
                "scale": o.scale, "pre": bool(o.pre_indexed), "post": post}
    return _other(o)


PROJ = {"x86": proj_x86, "aarch64": proj_a64}


def kinds_of(form):
    """which of the four classifications the returned line carries"""
    ks = []
    if form.label is not None:
        ks.append("label")
    if form.directive is not None:
        ks.append("directive")
    if form.mnemonic is not None:
        ks.append("instr")
    if not ks and form.comment is not None:
        ks.append("comment")
    return ks


def get_parser(isa):
    from osaca.parser import ParserAArch64, ParserX86ATT

    return ParserX86ATT() if isa == "x86" else ParserAArch64()


def observe_line(parser, isa, text, lineno=1):
    """parse one line; -> observation dict (never raises)"""
    try:
        f = parser.parse_line(text, lineno)
    except Exception as e:  # the property implies a result for every rendered line
        return {"err": "%s: %s" % (type(e).__name__, str(e)[:160]), "mnem": "", "ops": [], "kinds": [],
                "lineno": -1, "text": ""}
    return observe_form(isa, f)


def observe_form(isa, f):
    ops = []
    if f.mnemonic is not None:
        for o in (f.operands or []):
            ops.append(PROJ[isa](o))
    ln = f.line_number if isinstance(f.line_number, int) and not isinstance(f.line_number, bool) else -1
    return {"err": "", "mnem": f.mnemonic if isinstance(f.mnemonic, str) else "", "ops": ops,
            "kinds": kinds_of(f), "lineno": ln, "text": f.line if isinstance(f.line, str) else ""}


# ------------------------------------------------------------------ TLC side
def _cov_actions(raw):
    """per-action coverage from TLC's -coverage output: name -> distinct states"""
    import re

    out = {}
    for line in raw.splitlines():
        m = re.match(r"^<(\w+) line \d+, col \d+ to line \d+, col \d+ of module (\w+)(?: \([\d ]+\))?>: (\d+):(\d+)", line)
        if m:
            out[m.group(1)] = int(m.group(3))
    return out


def emit_lattice(run, isa, tag):
    """R1 + emission: TLC enumerates the operand-kind lattice of the ISA, checks the Canon rules and
    writes (written operand, denotation, alternatives).  -> list of dicts (deduplicated)."""
    out = os.path.join(tlc.WORK, "%s-lattice-%s-%d.ndjson" % (tag, isa, os.getpid()))
    if os.path.exists(out):
        os.unlink(out)
    try:
        r = tlc.run_tlc("MC_AsmSyntax", "MC_AsmSyntax_%s" % isa, env={"OUTFILE": out}, workers=4, timeout=600)
        recs = tlc.read_emitted(out)
    finally:
        if os.path.exists(out):
            os.unlink(out)
    run.add_mc(r, "MC_AsmSyntax_%s" % isa)
    seen, rows = set(), []
    for rec in recs:
        key = json.dumps(rec["ast"], sort_keys=True)
        if key not in seen:
            seen.add(key)
            rows.append(rec)
    if len(rows) != r.distinct:
        raise tlc.TLCError("lattice emission incomplete: %d rows for %d states" % (len(rows), r.distinct))
    rows.sort(key=lambda x: json.dumps(x["ast"], sort_keys=True))
    return rows


def emit_files(run, tier, tag):
    """R1 + emission for the line level: all files of <= MaxLines lines over the line alphabet."""
    out = os.path.join(tlc.WORK, "%s-files-%d.ndjson" % (tag, os.getpid()))
    if os.path.exists(out):
        os.unlink(out)
    try:
        r = tlc.run_tlc("MC_ParseFile", "MC_ParseFile_%s" % tier, env={"OUTFILE": out}, workers=1,
                        timeout=600, coverage=True)
        recs = tlc.read_emitted(out)
    finally:
        if os.path.exists(out):
            os.unlink(out)
    run.add_mc(r, "MC_ParseFile_%s" % tier)
    acts = _cov_actions(r.raw)
    for a in ("Blank", "Comment", "Label", "Directive", "Instr"):
        if acts.get(a, 0) == 0:
            raise tlc.TLCError("MC_ParseFile: action %s never taken (vacuous model)" % a)
    run.note("parsefile_actions_covered", {a: acts[a] for a in ("Blank", "Comment", "Label", "Directive", "Instr")})
    seen, rows = set(), []
    for rec in recs:
        key = json.dumps(rec["file"])
        if key not in seen:
            seen.add(key)
            rows.append(rec)
    if len(rows) != r.distinct:
        raise tlc.TLCError("file emission incomplete: %d rows for %d states" % (len(rows), r.distinct))
    rows.sort(key=lambda x: json.dumps(x["file"]))
    return rows


# ------------------------------------------------------------------ AST helpers (inputs only)
def xreg(name):
    return {"k": "reg", "name": name}


def areg(prefix, num, name="", lanes="", shape="", index=-1, pred=""):
    return {"k": "reg", "prefix": prefix, "num": num, "name": name, "lanes": lanes, "shape": shape,
            "index": index, "pred": pred}


def num(neg, base, value, lead0=0):
    """written number with the given magnitude"""
    if base == 10:
        ds = [int(c) for c in str(value)]
    else:
        ds = [0] * lead0 + [int(c, 16) for c in format(value, "x")]
    return {"neg": bool(neg), "base": base, "ds": ds}


def members(op):
    """number of operands a written operand denotes (structural: the members of a list/range)"""
    if op["k"] == "list":
        return len(op["elems"])
    if op["k"] == "range":
        return op["count"]
    return 1


def shape_of(isa, op):
    """input class of a written operand (used in signatures)"""
    k = op["k"]
    if isa == "x86":
        if k == "imm":
            return "imm:%s:%s" % ("hex" if op["base"] == 16 else "dec", "neg" if op["neg"] else "pos")
        if k == "mem":
            d = "-"
            if op["disp"]:
                x = op["disp"][0]
                d = "sym" if x["k"] == "sym" else ("%s%s" % ("hex" if x["base"] == 16 else "dec", "neg" if x["neg"] else "pos"))
            return "mem:disp=%s:base=%d:index=%d:scale=%s" % (d, len(op["base"]), len(op["index"]),
                                                           op["scale"] if op["scale"] else "omitted")
        return k
    if k == "reg":
        if op["num"] < 0:
            return "reg:%s%s" % (op["prefix"], op["name"])
        return "reg:%s%s%s%s" % (op["prefix"], (":" + op["lanes"] + op["shape"]) if op["shape"] else "",
                                 ":lane" if op["index"] >= 0 else "", (":/" + op["pred"]) if op["pred"] else "")
    if k in ("list", "range"):
        return "%s:%d%s" % (k, members(op), ":lane" if op["index"] >= 0 else "")
    if k == "imm":
        return "imm:%s:%s:%s" % ("hash" if op["hash"] else "nohash", "hex" if op["base"] == 16 else "dec",
                                 "neg" if op["neg"] else "pos")
    if k == "fimm":
        return "fimm:%s" % ("exp" if op["hasexp"] else "noexp")
    if k == "mem":
        return "mem:off=%d:idx=%d:ext=%s:amt=%s:%s" % (len(op["off"]), len(op["idx"]), op["ext"] or "-",
                                                       op["amt"] if op["amt"] >= 0 else "-", op["mode"])
    return k


# ---- instruction contexts for one lattice operand (valid operand order only)
def x86_contexts(ast, rnd):
    """-> list of (mnemonic, operands, position of ast): once first, once not first where valid"""
    k = ast["k"]
    regs = [xreg(n) for n in ("rax", "xmm1", "r10d", "zmm31", "ymm15", "cl", "r8")]
    f = lambda: dict(rnd.choice(regs))
    imm0 = dict({"k": "imm"}, **num(False, 10, rnd.choice([0, 1, 16])))
    if k == "sym":
        return [(rnd.choice(["jmp", "call", "jne", "jg"]), [ast], 1)]
    if k in ("imm", "immsym"):
        c = [(rnd.choice(["pushq", "int"]), [ast], 1),
             (rnd.choice(["addq", "movl", "cmpq"]), [ast, f()], 1),
             (rnd.choice(["vshufpd", "vpermilpd"]), [ast, f(), f(), f()][:rnd.randint(3, 4)], 1),
             ("enter", [imm0, ast], 2)]
        return [rnd.choice(c[:3]), c[3]] if k == "imm" else [rnd.choice(c[:3])]
    if k == "reg":
        n = rnd.randint(1, 4)
        first = (rnd.choice(["vaddpd", "mov", "incq", "VADDPD", "vfmadd231pd"]), [ast] + [f() for _ in range(n - 1)], 1)
        n = rnd.randint(2, 4)
        pos = rnd.randint(2, n)
        ops = [f() for _ in range(n)]
        ops[pos - 1] = ast
        if rnd.random() < 0.5:
            ops[0] = imm0
        return [first, (rnd.choice(["vaddpd", "movq", "vfmadd231pd", "imulq"]), ops, pos)]
    if k == "mem":
        n = rnd.randint(1, 3)
        first = (rnd.choice(["vmovupd", "movq", "lea", "incl", "vfmadd231pd"]), [ast] + [f() for _ in range(n - 1)], 1)
        n = rnd.randint(2, 4)
        pos = rnd.randint(2, n)
        ops = [f() for _ in range(n)]
        ops[pos - 1] = ast
        return [first, (rnd.choice(["vmovupd", "movq", "vaddpd", "cmpl"]), ops, pos)]
    raise ValueError(k)


def a64_contexts(ast, rnd):
    k = ast["k"]
    gp = lambda: areg(rnd.choice(["x", "w"]), rnd.randint(0, 30))
    vec = lambda: areg("v", rnd.randint(0, 31), lanes="2", shape="d")
    f = lambda: rnd.choice([gp, gp, vec])()
    plainmem = {"k": "mem", "base": areg("x", rnd.randint(0, 30)), "off": [], "idx": [], "ext": "", "amt": -1,
                "mode": "plain", "post": []}
    himm = dict({"k": "imm", "hash": True}, **num(False, 10, rnd.choice([0, 3, 16])))
    if k == "reg":
        n = rnd.randint(1, 5)
        first = (rnd.choice(["add", "fmla", "mov", "FADD", "madd"]), [ast] + [f() for _ in range(n - 1)], 1)
        n = rnd.randint(2, 5)
        pos = rnd.randint(2, n)
        ops = [f() for _ in range(n)]
        ops[pos - 1] = ast
        if pos < n and rnd.random() < 0.4:
            ops[n - 1] = plainmem
        return [first, (rnd.choice(["add", "fmul", "ldp", "mul"]), ops, pos)]
    if k in ("list", "range"):
        return [(rnd.choice(["ld1", "st1", "ld4"]), [ast, plainmem], 1),
                (rnd.choice(["tbl", "tbx"]), [vec(), ast, vec()], 2)]
    if k == "imm":
        n = rnd.randint(2, 4)
        ops = [gp() for _ in range(n)]
        ops[n - 1] = ast
        c = [(rnd.choice(["mov", "add", "subs", "and"]), ops, n),
             ("ccmp", [gp(), ast, himm, {"k": "cond", "cc": "NE", "lower": True}], 2)]
        return c
    if k == "fimm":
        return [("fmov", [areg(rnd.choice(["d", "s"]), rnd.randint(0, 31)), ast], 2),
                ("fmov", [vec(), ast], 2)]
    if k == "cond":
        return [(rnd.choice(["cset", "csetm"]), [gp(), ast], 2),
                (rnd.choice(["csel", "csinc", "fcsel"]), [gp(), gp(), gp(), ast], 4),
                ("ccmp", [gp(), gp(), himm, ast], 4)][::rnd.choice([1, -1])][:2]
    if k == "sym":
        return [(rnd.choice(["b", "bl", "b.ne", "b.eq", "b.lt"]), [ast], 1),
                rnd.choice([(rnd.choice(["cbz", "cbnz", "adrp"]), [gp(), ast], 2), ("tbz", [gp(), himm, ast], 3)])]
    if k == "mem":
        n = rnd.randint(2, 5)
        ops = [gp() for _ in range(n)]
        ops[n - 1] = ast
        return [(rnd.choice(["ldr", "str"]), [f(), ast], 2),
                (rnd.choice(["ldp", "stp", "casp", "ldr"]) if n > 2 else "ldr", ops, n)]
    raise ValueError(k)


CONTEXTS = {"x86": x86_contexts, "aarch64": a64_contexts}


# ------------------------------------------------------------------ seeded random ASTs (R3 inputs)
X86_GPR64 = ["rax", "rbx", "rcx", "rdx", "rsi", "rdi", "rbp", "rsp"] + ["r%d" % i for i in range(8, 16)]
X86_GPR32 = ["eax", "ebx", "ecx", "edx", "esi", "edi", "ebp", "esp"] + ["r%dd" % i for i in range(8, 16)]


_BITS = [0, 1, 3, 4, 7, 8, 12, 16, 31, 32, 33, 48, 63, 64]


def _rand_mag(rnd, maxbits=64):
    """random magnitude of a seeded bit length <= maxbits (boundary lengths included)"""
    bits = rnd.choice([b for b in _BITS if b <= maxbits])
    if bits == 0:
        return 0
    v = rnd.getrandbits(bits)
    return v | (1 << (bits - 1)) if rnd.random() < 0.5 else v


def _rand_num(rnd, maxbits=64, allow_neg=True):
    v = _rand_mag(rnd, maxbits)
    base = rnd.choice([10, 10, 16])
    neg = allow_neg and v <= 2 ** 63 and rnd.random() < 0.35
    return num(neg, base, v, lead0=rnd.choice([0, 0, 0, 1, 2]) if base == 16 else 0)


def _rand_sym(rnd, isa):
    if isa == "x86":
        pats = [".L%d", ".LBB%d_7", "..B%d.3", "_Z%dfoov", "func_%d", "kernel%d", ".LC%d", "triad$%d", "a.b%d"]
    else:
        # names that begin like a condition code (lo, ge, eq, cc, mi, hi, al ...) are ordinary symbols
        pats = [".L%d", ".LBB%d_7", "_Z%dfoov", "func_%d", "kernel%d", ".LC%d", "Loop.%d", "_start%d",
                "lo_half%d", "ge.%d", "eq_case%d", "cc_table%d", "mi_%d", "hi.L%d", "al_%d", "vs%d_x", "lt.%d"]
    return rnd.choice(pats) % rnd.randint(0, 99)


def _anycase(rnd, name):
    """register names are case-insensitive for the assembler (%RAX, %Xmm3): now and then in upper or mixed case;
    the parser has to return the name as written"""
    r = rnd.random()
    if r < 0.08:
        return name.upper()
    if r < 0.11:
        return name[0].upper() + name[1:]
    return name


def rand_x86_operand(rnd, regnames, kind=None):
    kind = kind or rnd.choice(["reg", "reg", "mem", "mem", "imm"])
    if kind == "reg":
        return xreg(_anycase(rnd, rnd.choice(regnames)))
    if kind == "imm":
        if rnd.random() < 0.1:
            return {"k": "immsym", "name": _rand_sym(rnd, "x86")}
        return dict({"k": "imm"}, **_rand_num(rnd))
    if kind == "sym":
        return {"k": "sym", "name": _rand_sym(rnd, "x86")}
    # memory reference: all 2^3 - 1 combinations
    pool = X86_GPR64 if rnd.random() < 0.8 else X86_GPR32
    while True:
        hd, hb, hi = rnd.random() < 0.6, rnd.random() < 0.7, rnd.random() < 0.5
        if hd or hb or hi:
            break
    disp, base, index, scale = [], [], [], 0
    if hd:
        if not hb and not hi:
            disp = [dict({"k": "num"}, **_rand_num(rnd, 32, allow_neg=False))]
        elif rnd.random() < 0.15:
            disp = [{"k": "sym", "name": _rand_sym(rnd, "x86")}]
        else:
            disp = [dict({"k": "num"}, **_rand_num(rnd, 32))]
    if hb:
        base = [_anycase(rnd, rnd.choice(pool))]
        if hd and not hi and disp[0]["k"] == "sym" and rnd.random() < 0.7:
            base = ["rip"]
    if hi:
        index = [_anycase(rnd, rnd.choice([r for r in pool if r not in ("rsp", "esp")]))]
        scale = rnd.choice([0, 1, 2, 4, 8])
    return {"k": "mem", "disp": disp, "base": base, "index": index, "scale": scale}


def rand_x86_instr(rnd, regnames):
    """0-4 operands in valid AT&T order: [imm] then registers/memory (at most one memory
    reference), or a lone jump/call target"""
    n = rnd.choice([0, 1, 1, 2, 2, 2, 3, 3, 4])
    if n == 0:
        return rnd.choice(["ret", "nop", "vzeroupper", "leave", "cltq"]), []
    if n == 1 and rnd.random() < 0.4:
        return rnd.choice(["jmp", "call", "jne", "jb", "jle"]), [rand_x86_operand(rnd, regnames, "sym")]
    ops = []
    if rnd.random() < 0.3:
        ops.append(rand_x86_operand(rnd, regnames, "imm"))
    mempos = rnd.randint(len(ops), n - 1) if rnd.random() < 0.6 and len(ops) < n else -1
    while len(ops) < n:
        ops.append(rand_x86_operand(rnd, regnames, "mem" if len(ops) == mempos else "reg"))
    mn = rnd.choice(["mov", "movq", "addl", "vaddpd", "vfmadd231pd", "lea", "leaq", "vmovupd", "cmpq", "imulq",
                     "VMULPD", "vpinsrq", "subq", "xorl", "vbroadcastsd", "prefetcht0", "incq", "shlq"])
    return mn, ops


A64_ARR = [("8", "b"), ("16", "b"), ("4", "h"), ("8", "h"), ("2", "s"), ("4", "s"), ("1", "d"), ("2", "d")]
A64_LANEMAX = {"b": 15, "h": 7, "s": 3, "d": 1}


def rand_a64_reg(rnd, cls=None):
    cls = cls or rnd.choice(["gp", "gp", "gp", "fp", "vec", "vec", "lane", "z", "p", "alias"])
    if cls == "gp":
        return areg(rnd.choice(["x", "w"]), rnd.randint(0, 30))
    if cls == "fp":
        return areg(rnd.choice(["b", "h", "s", "d", "q"]), rnd.randint(0, 31))
    if cls == "vec":
        l, s = rnd.choice(A64_ARR)
        return areg("v", rnd.randint(0, 31), lanes=l, shape=s)
    if cls == "lane":
        s = rnd.choice("bhsd")
        return areg("v", rnd.randint(0, 31), shape=s, index=rnd.randint(0, A64_LANEMAX[s]))
    if cls == "z":
        return areg("z", rnd.randint(0, 31), shape=rnd.choice(["", "b", "h", "s", "d"]))
    if cls == "p":
        if rnd.random() < 0.5:
            return areg("p", rnd.randint(0, 15), pred=rnd.choice(["", "z", "m"]))
        return areg("p", rnd.randint(0, 15), shape=rnd.choice("bhsd"))
    return rnd.choice([areg("", -1, "sp"), areg("x", -1, "zr"), areg("w", -1, "zr")])


def rand_a64_list(rnd):
    count = rnd.randint(1, 4)
    start = rnd.randint(0, 31 - count + 1)
    lane = rnd.random() < 0.3
    if lane:
        s = rnd.choice("bhsd")
        e = areg("v", start, shape=s)
        idx = rnd.randint(0, A64_LANEMAX[s])
    elif rnd.random() < 0.25:
        e = areg("z", start, shape=rnd.choice("bhsd"))
        idx = -1
    else:
        l, s = rnd.choice(A64_ARR)
        e = areg("v", start, lanes=l, shape=s)
        idx = -1
    if count >= 2 and rnd.random() < 0.5:
        return {"k": "range", "first": e, "count": count, "index": idx}
    return {"k": "list", "elems": [dict(e, num=start + i) for i in range(count)], "index": idx}


def _hnum(rnd, maxbits=16, allow_neg=True):
    n = _rand_num(rnd, maxbits, allow_neg)
    n["hash"] = rnd.random() < 0.7
    return n


def rand_a64_mem(rnd):
    base = areg("x", rnd.randint(0, 30)) if rnd.random() < 0.8 else areg("", -1, "sp")
    m = {"k": "mem", "base": base, "off": [], "idx": [], "ext": "", "amt": -1, "mode": "plain", "post": []}
    c = rnd.choice(["base", "off", "off", "pre", "post", "idx", "idx", "idxw"])
    if c in ("off", "pre"):
        m["off"] = [_hnum(rnd)]
        m["mode"] = "pre" if c == "pre" else "plain"
    elif c == "post":
        m["post"] = [_hnum(rnd)]
        m["mode"] = "post"
    elif c == "idx":
        m["idx"] = [areg("x", rnd.randint(0, 30))]
        if rnd.random() < 0.6:
            m["ext"], m["amt"] = "lsl", rnd.randint(0, 4)
    elif c == "idxw":
        m["idx"] = [areg("w", rnd.randint(0, 30))]
        m["ext"], m["amt"] = rnd.choice(["sxtw", "uxtw"]), rnd.randint(-1, 4)
    return m


def rand_a64_fimm(rnd):
    ip = [int(c) for c in str(rnd.choice([0, 1, 2, 5, 10, 31, 127]))]
    fp = [rnd.randint(0, 9) for _ in range(rnd.randint(1, 4))]
    he = rnd.random() < 0.5
    return {"k": "fimm", "hash": rnd.random() < 0.7, "neg": rnd.random() < 0.3, "ip": ip, "fp": fp,
            "hasexp": he, "eneg": he and rnd.random() < 0.5, "e": rnd.randint(0, 12) if he else 0}


A64_CC = ["EQ", "NE", "CS", "HS", "CC", "LO", "MI", "PL", "VS", "VC", "HI", "LS", "GE", "LT", "GT", "LE"]


def rand_a64_instr(rnd):
    """0-5 written operands in valid AArch64 order: registers / register lists first, then
    immediates, then at most one of memory reference / condition code / label, which is last"""
    n = rnd.choice([0, 1, 2, 2, 3, 3, 3, 4, 4, 5])
    if n == 0:
        return rnd.choice(["ret", "nop", "isb", "wfi"]), []
    last = rnd.choice(["reg", "reg", "imm", "fimm", "mem", "mem", "mem", "cond", "sym"])
    if n == 1:
        last = rnd.choice(["reg", "sym", "sym"])
    ops = []
    nimm = rnd.choice([0, 0, 1]) if n >= 3 and last in ("imm", "cond", "sym") else 0
    nreg = n - 1 - nimm
    for i in range(nreg):
        if i <= 1 and rnd.random() < 0.15:
            ops.append(rand_a64_list(rnd))
        else:
            ops.append(rand_a64_reg(rnd))
    for _ in range(nimm):
        ops.append(dict({"k": "imm"}, **_hnum(rnd, 64 if rnd.random() < 0.3 else 16)))
    if last == "reg":
        ops.append(rand_a64_reg(rnd))
    elif last == "imm":
        ops.append(dict({"k": "imm"}, **_hnum(rnd, 64 if rnd.random() < 0.5 else 16)))
    elif last == "fimm":
        ops.append(rand_a64_fimm(rnd))
    elif last == "mem":
        ops.append(rand_a64_mem(rnd))
    elif last == "cond":
        ops.append({"k": "cond", "cc": rnd.choice(A64_CC), "lower": rnd.random() < 0.8})
    else:
        ops.append({"k": "sym", "name": _rand_sym(rnd, "aarch64")})
    mn = {"mem": ["ldr", "str", "ldp", "stp", "ld1", "st1", "ld1d", "ldur", "prfm"],
          "cond": ["csel", "cset", "ccmp", "fcsel", "csinc"], "sym": ["b", "bl", "b.ne", "b.eq", "cbz", "tbz", "adrp", "b.hs"],
          "fimm": ["fmov"], "imm": ["mov", "add", "subs", "and", "lsl", "movk"],
          "reg": ["add", "fmla", "fadd", "mul", "madd", "FMUL", "mov", "uzp1", "whilelo", "fmad"]}[last]
    return rnd.choice(mn), ops


def rand_instr(isa, rnd, regnames):
    return rand_x86_instr(rnd, regnames) if isa == "x86" else rand_a64_instr(rnd)


# ------------------------------------------------------------------ driving the real parser
def _work_lines(args):
    """child process: parse single lines with parse_line"""
    isa, jobs = args
    p = get_parser(isa)
    return [(j["id"], observe_line(p, isa, j["text"], j.get("lineno", 1))) for j in jobs]


def _work_files(args):
    """child process: parse whole files with parse_file"""
    isa, jobs = args
    p = get_parser(isa)
    res = []
    for j in jobs:
        try:
            forms = p.parse_file(j["content"])
            res.append((j["id"], {"err": "", "out": [observe_form(isa, f) for f in forms]}))
        except Exception as e:
            res.append((j["id"], {"err": "%s: %s" % (type(e).__name__, str(e)[:160]), "out": []}))
    return res


def _parallel(fn, isa, jobs, nproc=14, chunk=150):
    import multiprocessing as mp

    if not jobs:
        return {}
    chunks = [(isa, jobs[i:i + chunk]) for i in range(0, len(jobs), chunk)]
    if len(chunks) == 1:
        return dict(fn(chunks[0]))
    ctx = mp.get_context("fork")
    with ctx.Pool(min(nproc, len(chunks))) as pool:
        out = {}
        for part in pool.imap_unordered(fn, chunks):
            out.update(part)
    return out


# ------------------------------------------------------------------ building inputs
def line_job(isa, jid, mnem, ops, lay, origin):
    return {"id": jid, "isa": isa, "mnem": mnem, "ops": ops, "text": R.instruction(isa, mnem, ops, lay),
            "trail": lay.has_trailing_text(), "origin": origin, "layout": lay.describe()}


def lattice_jobs(isa, rows, rnd, n_ctx, n_lay):
    """R2: every lattice operand, first and non-first position, plain + seeded layouts"""
    jobs = []
    for ri, row in enumerate(rows):
        ctxs = CONTEXTS[isa](row["ast"], rnd)[:n_ctx]
        for ci, (mn, ops, pos) in enumerate(ctxs):
            lays = [R.Layout.plain()] + [R.Layout.random(rnd, isa) for _ in range(n_lay - 1)]
            if ci % 2 == 1:
                lays = lays[1:] + [R.Layout.random(rnd, isa, want_comment=True)]
            for li, lay in enumerate(lays):
                j = line_job(isa, "L%d.%d.%d" % (ri, ci, li), mn, ops, lay, "lattice")
                j["pos"] = pos
                jobs.append(j)
    return jobs


def random_jobs(isa, rnd, regnames, n):
    jobs = []
    for i in range(n):
        mn, ops = rand_instr(isa, rnd, regnames)
        jobs.append(line_job(isa, "R%d" % i, mn, ops, R.Layout.random(rnd, isa), "random"))
    return jobs


def render_token(isa, tok, rnd, regnames):
    """abstract line token of MC_ParseFile -> concrete line record"""
    kind, var = tok.split(":")
    if kind == "blank":
        return {"kind": "blank", "text": R.blank_line(rnd, var)}
    if kind == "comment":
        return {"kind": "comment", "text": R.comment_line(rnd, isa)}
    if kind == "label":
        return {"kind": "label", "text": R.label_line(rnd, isa, with_comment=(var == "comment"))}
    if kind == "directive":
        return {"kind": "directive", "text": R.directive_line(rnd, isa)}
    while True:
        mn, ops = rand_instr(isa, rnd, regnames)
        if (var == "noops") == (len(ops) == 0):
            break
    lay = R.Layout.random(rnd, isa, want_comment=(var == "comment"))
    return {"kind": "instr", "text": R.instruction(isa, mn, ops, lay), "mnem": mn, "ops": ops,
            "trail": lay.has_trailing_text(), "layout": lay.describe()}


def random_file(isa, rnd, regnames, maxlines=40):
    n = rnd.randint(0, maxlines)
    toks = []
    for _ in range(n):
        toks.append(rnd.choice(["blank:empty", "blank:ws", "blank:any", "comment:a", "label:plain", "label:comment",
                                "directive:a", "instr:ops", "instr:ops", "instr:ops", "instr:comment", "instr:noops"]))
    return [render_token(isa, t.replace("blank:any", "blank:" + rnd.choice(["empty", "ws"])), rnd, regnames) for t in toks]


def file_job(isa, jid, lines, final_newline, origin):
    return {"id": jid, "isa": isa, "lines": lines, "content": "\n".join(l["text"] for l in lines) + ("\n" if final_newline else ""),
            "final_newline": final_newline, "origin": origin}


def repo_file_jobs(isa, repo):
    """the repository's own assembly files of this ISA (kind unknown: 'any')"""
    from osaca.parser import BaseParser

    jobs = []
    paths = sorted(glob.glob(os.path.join(repo, "examples", "*", "*.s")) + glob.glob(os.path.join(repo, "tests", "test_files", "*.s")))
    for p in paths:
        try:
            with open(p, encoding="utf-8") as f:
                content = f.read()
        except (OSError, UnicodeDecodeError):
            continue
        low = os.path.basename(p).lower() + " " + os.path.dirname(p).lower()
        if "intel" in os.path.basename(p).lower():
            continue  # Intel syntax: not the AT&T language of C09
        # ISA of the file: decided by the harness from the text (trusted, dumb): '%reg' => x86
        is_x86 = ("%r" in content or "%x" in content or "%e" in content or "%y" in content or "%z" in content)
        if (isa == "x86") != is_x86:
            continue
        texts = content.split("\n")
        lines = [{"kind": "blank" if t.strip() == "" else "any", "text": t} for t in texts]
        jobs.append({"id": "F:" + os.path.relpath(p, repo), "isa": isa, "lines": lines, "content": content,
                     "final_newline": False, "origin": "repo", "path": p})
    return jobs


# ------------------------------------------------------------------ verdicts
def _written_at(ops, flatpos):
    """written operand that denotes the flatpos-th (1-based) returned operand"""
    n = 0
    for o in ops:
        n += members(o)
        if flatpos <= n:
            return o
    return None


def asm_signature(pid, isa, case, clause, pos, exp_json, obs_json):
    shapes = "+".join(shape_of(isa, o) for o in case["ops"]) or "none"
    if clause in ("operand-kind", "operand-value"):
        w = _written_at(case["ops"], pos)
        sh = shape_of(isa, w) if w is not None else "?"
        try:
            ek, ok = json.loads(exp_json)["k"], json.loads(obs_json)["k"]
        except (ValueError, KeyError, TypeError):
            ek, ok = "?", "?"
        if clause == "operand-kind":
            extra = ""
            if w is not None and w["k"] == "cond":
                extra = ":trailing-text" if case["trail"] else ":no-trailing-text"
            return "%s:operand-kind:%s->%s:%s%s" % (pid, ek, ok, sh, extra)
        return "%s:operand-value:%s" % (pid, sh)
    if clause == "operand-count":
        return "%s:operand-count:%s" % (pid, shapes)
    if clause == "mnemonic":
        return "%s:mnemonic:%s" % (pid, case["mnem"])
    if clause == "not-an-instruction":
        return "%s:misclassified:instr->%s" % (pid, "+".join(case["obs"]["kinds"]) or "nothing")
    if clause == "exception":
        return "%s:exception:parse_line:%s" % (pid, shapes)
    return "%s:%s" % (pid, clause)


def validate_asm(run, pid, isa, cases, label):
    if not cases:
        return
    rejects, r = tlc.batch_validate("Trace_AsmSyntax", "Trace_AsmSyntax", cases, tag=pid.lower() + "-asm", timeout=1200)
    run.add_mc(r, label)
    run.add_traces(len(cases))
    byid = {c["id"]: c for c in cases}
    verdicts = {}
    for cid, clause, rest in rejects:
        c = byid[cid]
        pos, ej, oj = (rest + [0, "", ""])[:3]
        sig = asm_signature(pid, isa, c, clause, pos, ej, oj)
        what = "%s %r (%s, via %s): %s" % (isa, c["text"], c["origin"], c["via"], clause)
        if clause in ("operand-kind", "operand-value"):
            what += " at returned operand %d: expected %s, observed %s" % (pos, ej, oj)
        elif clause == "operand-count":
            what += ": observed %d operands %s" % (len(c["obs"]["ops"]), json.dumps(c["obs"]["ops"]))
        elif clause == "mnemonic":
            what += ": written %r, observed %r" % (c["mnem"], c["obs"]["mnem"])
        elif clause == "exception":
            what += ": " + c["obs"]["err"]
        elif clause == "not-an-instruction":
            what += ": classified as %s" % c["obs"]["kinds"]
        verdicts[cid] = run.fail(sig, what, c)
    return [(cid, clause, rest, verdicts[cid]) for cid, clause, rest in rejects]


def validate_files(run, pid, isa, cases, label):
    if not cases:
        return
    slim = [{"id": c["id"], "err": c["err"], "file": c["file"], "out": c["out"]} for c in cases]
    rejects, r = tlc.batch_validate("Trace_ParseFile", "Trace_ParseFile", slim, tag=pid.lower() + "-file", timeout=1200)
    run.add_mc(r, label)
    run.add_traces(len(cases))
    byid = {c["id"]: c for c in cases}
    verdicts = {}
    for cid, clause, _ in rejects:
        c = byid[cid]
        sig = "%s:file:%s:%s" % (pid, clause, c["origin"])
        nb = [i + 1 for i, l in enumerate(c["file"]) if l["kind"] != "blank"]
        what = "%s parse_file on %s (%d physical lines, non-blank at %s): clause %s fails; returned line numbers %s kinds %s%s" % (
            isa, c["id"], len(c["file"]), nb[:12], clause, [o["lineno"] for o in c["out"]][:12],
            [o["kinds"] for o in c["out"]][:12], (" error " + c["err"]) if c["err"] else "")
        keep = dict(c)
        if len(keep["file"]) > 60:
            keep = {"id": c["id"], "origin": c["origin"], "path": c.get("path"), "note": "file too long to inline"}
        verdicts[cid] = run.fail(sig, what, keep)
    return [(cid, clause, rest, verdicts[cid]) for cid, clause, rest in rejects]


def _asm_case(job, obs, via):
    return {"id": job["id"], "isa": job["isa"], "mnem": job["mnem"], "ops": job["ops"], "text": job["text"],
            "trail": job["trail"], "origin": job["origin"], "via": via, "layout": job.get("layout"),
            "obs": {"err": obs["err"], "mnem": obs["mnem"], "ops": obs["ops"], "kinds": obs["kinds"]}}


def _file_cases(isa, fjobs, fobs):
    """-> (Trace_ParseFile cases, Trace_AsmSyntax cases of the instruction lines)"""
    fcases, acases = [], []
    for j in fjobs:
        o = fobs[j["id"]]
        out = [{"lineno": x["lineno"], "text": x["text"], "kinds": x["kinds"]} for x in o["out"]]
        fcases.append({"id": j["id"], "origin": j["origin"], "err": o["err"], "path": j.get("path"),
                       "file": [{"kind": l["kind"], "text": l["text"]} for l in j["lines"]], "out": out,
                       "final_newline": j["final_newline"]})
        nonblank = [(i, l) for i, l in enumerate(j["lines"]) if l["kind"] != "blank"]
        if o["err"] or len(nonblank) != len(o["out"]):
            continue
        for k, (i, l) in enumerate(nonblank):
            if l["kind"] == "instr" and "ops" in l:
                job = {"id": "%s@%d" % (j["id"], i + 1), "isa": isa, "mnem": l["mnem"], "ops": l["ops"], "text": l["text"],
                       "trail": l["trail"], "origin": j["origin"], "layout": l.get("layout")}
                acases.append(_asm_case(job, o["out"][k], "parse_file"))
    return fcases, acases


def binding_selftest(run, pid, isa, acases, fcases, rejected_a, rejected_f):
    """DESIGN 3.5: corrupt recorded fields / drop events of ACCEPTED cases; every corrupted copy must be
    rejected by the trace specifications, otherwise the binding is vacuous (machinery failure)."""
    import copy

    bad_a, bad_f = [], []

    def first(pred, cases, rejected):
        for c in cases:
            if c["id"] not in rejected and pred(c):
                return copy.deepcopy(c)
        return None

    c = first(lambda c: any(o["k"] == "mem" for o in c["obs"]["ops"]), acases, rejected_a)
    if c:
        m = [o for o in c["obs"]["ops"] if o["k"] == "mem"][0]
        m["scale"] = m["scale"] * 2
        c["id"] = "selftest-scale"
        bad_a.append(c)
    c = first(lambda c: any(o["k"] == "imm" for o in c["obs"]["ops"]), acases, rejected_a)
    if c:
        m = [o for o in c["obs"]["ops"] if o["k"] == "imm"][0]
        m["val"] = str(int(m["val"]) + 1)
        c["id"] = "selftest-imm"
        bad_a.append(c)
    c = first(lambda c: len(c["obs"]["ops"]) >= 2, acases, rejected_a)
    if c:
        c["obs"]["ops"].pop()
        c["id"] = "selftest-dropped-operand"
        bad_a.append(c)
    c = first(lambda c: len(c["obs"]["ops"]) >= 1, acases, rejected_a)
    if c:
        c["obs"]["mnem"] = c["obs"]["mnem"] + "x"
        c["id"] = "selftest-mnemonic"
        bad_a.append(c)
    ok_f = lambda c: c["origin"] != "repo" and len(c["out"]) >= 2 and any(l["kind"] == "blank" for l in c["file"])
    c = first(ok_f, fcases, rejected_f)
    if c:
        c["out"][-1]["lineno"] -= 1 if c["out"][-1]["lineno"] - 1 != c["out"][-2]["lineno"] else -1
        c["id"] = "selftest-lineno"
        bad_f.append(c)
    c = first(ok_f, fcases, rejected_f)
    if c:
        c["out"].pop(0)
        c["id"] = "selftest-dropped-line"
        bad_f.append(c)
    c = first(ok_f, fcases, rejected_f)
    if c:
        c["out"][0]["text"] = c["out"][0]["text"] + "!"
        c["id"] = "selftest-text"
        bad_f.append(c)
    c = first(ok_f, fcases, rejected_f)
    if c:
        c["out"][0]["kinds"] = c["out"][0]["kinds"] + ["comment" if c["out"][0]["kinds"] != ["comment"] else "label"]
        c["id"] = "selftest-two-kinds"
        bad_f.append(c)
    missed = []
    if bad_a:
        rej, _ = tlc.batch_validate("Trace_AsmSyntax", "Trace_AsmSyntax", bad_a, tag=pid.lower() + "-selftest")
        missed += sorted({c["id"] for c in bad_a} - {r[0] for r in rej})
    if bad_f:
        slim = [{"id": c["id"], "err": c["err"], "file": c["file"], "out": c["out"]} for c in bad_f]
        rej, _ = tlc.batch_validate("Trace_ParseFile", "Trace_ParseFile", slim, tag=pid.lower() + "-selftest")
        missed += sorted({c["id"] for c in bad_f} - {r[0] for r in rej})
    run.note("binding_selftest", {"corrupted_cases": len(bad_a) + len(bad_f), "rejected": len(bad_a) + len(bad_f) - len(missed)})
    if missed or len(bad_a) + len(bad_f) < 8:
        raise tlc.TLCError("binding self-test failed: corrupted observations accepted or not constructible: %s (%d built)"
                           % (missed, len(bad_a) + len(bad_f)))


def _nontrivial(run, isa, case):
    """distinct rendered instruction line with at least one operand that is not a plain register"""
    for o in case["ops"]:
        if o["k"] != "reg" or (isa == "aarch64" and (o["shape"] or o["pred"] or o["num"] < 0 or o["index"] >= 0)):
            run.mark(case["text"])
            return


def run_check(pid, isa, tier, seed):
    from harness import env

    run = Run(pid, tier, seed)
    quick = tier == "quick"
    rnd = random.Random(seed * 7919 + (9 if isa == "x86" else 10))
    run.rule = ("a case = one rendered line (or file) parsed by the real parser and decided by TLC; lines: every operand of the "
                "TLC-enumerated lattice in first and non-first position x layouts, plus seeded random instructions in valid "
                "operand order; files: every file of <= 4 lines over the MC_ParseFile alphabet, seeded random files <= 40 lines "
                "and the repository's own .s files; non-trivial = distinct rendered instruction line with at least one operand "
                "that is not a plain register")
    # ---- R1: exhaustive TLC runs (+ emission)
    rows = emit_lattice(run, isa, pid.lower())
    frows = emit_files(run, tier, pid.lower())
    regnames = sorted(r["ast"]["name"] for r in rows if r["ast"]["k"] == "reg") if isa == "x86" else None
    # ---- R2/R3 single lines through parse_line
    ljobs = lattice_jobs(isa, rows, rnd, 2, 2 if quick else 6)
    rjobs = random_jobs(isa, rnd, regnames, 1500 if quick else 40000)
    lobs = _parallel(_work_lines, isa, ljobs + rjobs)
    acases = [_asm_case(j, lobs[j["id"]], "parse_line") for j in ljobs + rjobs]
    # ---- R2/R3 files through parse_file
    fjobs = []
    for i, fr in enumerate(frows):
        lines = [render_token(isa, tok, rnd, regnames) for tok in fr["file"]]
        j = file_job(isa, "T%d" % i, lines, rnd.random() < 0.5, "tlc")
        j["expected"] = fr["out"]
        fjobs.append(j)
    for i in range(150 if quick else 3000):
        fjobs.append(file_job(isa, "RF%d" % i, random_file(isa, rnd, regnames), rnd.random() < 0.5, "random"))
    fjobs += [j for j in repo_file_jobs(isa, env.REPO) if not j["id"].endswith(".copy.s")]
    fobs = _parallel(_work_files, isa, fjobs, chunk=60)
    fcases, facases = _file_cases(isa, fjobs, fobs)
    # self-consistency of the two routes for TLC-written files: TLC's own expected out vs. observation
    for j in fjobs:
        if "expected" in j and not fobs[j["id"]]["err"]:
            exp = [(e["lineno"], e["kinds"]) for e in j["expected"]]
            got = [(o["lineno"], o["kinds"]) for o in fobs[j["id"]]["out"]]
            j["agrees_with_tlc_out"] = (exp == got)
    # ---- TLC decides
    rej_a = validate_asm(run, pid, isa, acases + facases, "Trace_AsmSyntax_%s" % isa) or []
    rej_f = validate_files(run, pid, isa, fcases, "Trace_ParseFile_%s" % isa) or []
    rejected_files = {r[0] for r in rej_f}
    binding_selftest(run, pid, isa, acases + facases, fcases, {r[0] for r in rej_a}, rejected_files)
    for j in fjobs:
        if "agrees_with_tlc_out" in j and j["agrees_with_tlc_out"] != (j["id"] not in rejected_files):
            run.divergence("trace-spec-vs-emitted-expectation", {"id": j["id"], "file": [l["text"] for l in j["lines"]]})
    for c in acases + facases:
        _nontrivial(run, isa, c)
    for c in (acases[:1] + acases[len(ljobs):len(ljobs) + 2] + facases[:1]):
        run.sample({"text": c["text"], "mnem": c["mnem"], "ops": c["ops"], "observed": c["obs"]["ops"], "via": c["via"]})
    if fcases:
        c = fcases[min(len(fcases) - 1, 700)]
        run.sample({"file": [l["text"] for l in c["file"]], "observed": c["out"]})
    run.note("lattice_operands", len(rows))
    run.note("lines_from_lattice", len(ljobs))
    run.note("lines_random", len(rjobs))
    run.note("instruction_lines_in_files", len(facases))
    run.note("files_from_tlc", len(frows))
    run.note("files_random", sum(1 for j in fjobs if j["origin"] == "random"))
    run.note("files_repo", sum(1 for j in fjobs if j["origin"] == "repo"))
    run.note("physical_lines_in_files", sum(len(j["lines"]) for j in fjobs))
    run.add_eval(len(acases) + len(facases) + sum(len(j["lines"]) for j in fjobs))
    run.exhaustive = False
    run.assume("the AST -> text renderer (harness/asm_render.py) and the field-by-field projection of operand objects "
               "(harness/parsers_common.py) are trusted; expected values are computed by TLC from the AST (AsmSyntax!Canon)")
    run.assume("operand level: TLC acts as enumerator of the kind lattice and evaluator of Canon (DESIGN section 8); "
               "line level: MC_ParseFile is a state machine shaped like parse_file, checked against the four clauses")
    run.assume("x86: a displacement-only memory reference is written as a bare non-negative number; in first operand "
               "position the numeric-label reading is accepted as well (statement: 'labels')")
    run.assume("only lower-case register names are rendered; floating-point immediates are compared by numeric value")
    return run.finish()


def replay_check(pid, isa, path):
    with open(path) as f:
        rec = json.load(f)
    c = rec["case"]
    print("replaying", rec["signature"])
    run = Run(pid, "replay", rec.get("seed", 0))
    if "ops" in c:
        p = get_parser(isa)
        if c.get("via") == "parse_file":
            forms = p.parse_file(c["text"])
            obs = observe_form(isa, forms[0]) if len(forms) == 1 else {"err": "parse_file returned %d lines" % len(forms), "mnem": "", "ops": [], "kinds": []}
        else:
            obs = observe_line(p, isa, c["text"])
        case = dict(c, obs={"err": obs["err"], "mnem": obs["mnem"], "ops": obs["ops"], "kinds": obs["kinds"]})
        print("line    :", repr(c["text"]))
        print("observed:", json.dumps(case["obs"]))
        rej = validate_asm(run, pid, isa, [case], "replay")
    elif "file" in c:
        content = "\n".join(l["text"] for l in c["file"]) + ("\n" if c.get("final_newline") else "")
        j = {"id": c["id"], "isa": isa, "lines": c["file"], "content": content, "final_newline": c.get("final_newline", False),
             "origin": c["origin"]}
        fobs = dict(_work_files((isa, [j])))
        fcases, _ = _file_cases(isa, [j], fobs)
        print("observed:", json.dumps(fcases[0]["out"]))
        rej = validate_files(run, pid, isa, fcases, "replay")
    else:
        print("replay file carries no inline case (long repository file): run the check itself")
        return 2
    rej = [r for r in (rej or []) if r[3] != "known"]
    print("still failing" if rej else "no longer failing (or only a known finding)")
    return 1 if rej else 0
