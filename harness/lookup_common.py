"""Shared by C07/C08: abstract operand kinds (the records of specs/Lookup.tla) and their three
concrete faces: the YAML dict of a model entry, assembly text of a written operand, and the
field-by-field projection of a loaded model entry.  Nothing here decides whether two kinds
match: that is the specification's job (TLC)."""
import re

FIELDS = ("k", "c", "s", "m", "t", "b", "o", "i", "sc", "pre", "post")

X86_CLASSES = ("gpr", "xmm", "ymm", "zmm", "mm", "k")
A64_PREFIXES = ("x", "w", "b", "h", "s", "d", "q", "v", "z", "p")
A64_SHAPES = ("b", "h", "s", "d")


def K(k, **kw):
    d = {f: "" for f in FIELDS}
    d["k"] = k
    d.update(kw)
    return d


def clean(kind):
    """only the fields the specification knows (drops 'raw')."""
    return {f: kind[f] for f in FIELDS}


def kstr(kind):
    """canonical compact text of a kind, used in signatures and evidence."""
    k = kind["k"]
    if k == "reg":
        c = kind.get("raw") or kind["c"]
        s = "reg(c=%s" % c
        if kind["s"]:
            s += ",s=%s" % kind["s"]
        if kind["m"]:
            s += ",mask"
        return s + ")"
    if k in ("imm", "cc", "prf"):
        return "%s(%s)" % (k, kind["t"])
    if k == "mem":
        return "mem(b=%s,o=%s,i=%s,sc=%s,pre=%s,post=%s)" % (
            kind["b"], kind["o"], kind["i"], kind["sc"] if kind["sc"] else "null", kind["pre"], kind["post"])
    return k


def opsstr(kinds):
    return "[" + ";".join(kstr(x) for x in kinds) + "]"


# ------------------------------------------------------------------ kind -> YAML entry operand
_FLAG = {"f": False, "t": True, "*": "*"}


def entry_yaml(isa, kind, rnd=None):
    k = kind["k"]
    if k == "reg":
        if isa == "x86":
            d = {"class": "register", "name": kind.get("raw") or kind["c"]}
            if kind["m"]:
                d["mask"] = True
        else:
            d = {"class": "register", "prefix": kind["c"]}
            if kind["s"]:
                d["shape"] = kind["s"]
        return d
    if k == "imm":
        return {"class": "immediate", "imd": kind["t"]}
    if k == "id":
        return {"class": "identifier"}
    if k == "cc":
        return {"class": "condition", "ccode": kind["t"]}
    if k == "prf":
        if kind["t"] == "*":
            return {"class": "prfop", "type": "*", "target": "*", "policy": "*"}
        return {"class": "prfop", "type": "pld", "target": "l1", "policy": "keep"}
    if k == "mem":
        sc = kind["sc"]
        scale = {"1": 1, "*": "*", "": None}.get(sc, (rnd.choice([2, 4, 8]) if rnd else 8))
        d = {"class": "memory", "base": kind["b"] or None, "offset": kind["o"] or None,
             "index": kind["i"] or None, "scale": scale}
        if isa == "aarch64":
            d["pre_indexed"] = _FLAG[kind["pre"]]
            d["post_indexed"] = _FLAG[kind["post"]]
        return d
    raise ValueError(kind)


# ------------------------------------------------------------------ kind -> assembly text
class _First:
    """deterministic stand-in for random.Random: always the first choice."""

    def choice(self, seq):
        return seq[0]

    def random(self):
        return 0.9


FIRST = _First()

_X86_REGS = {
    "gpr": ["%rax", "%ebx", "%cx", "%dl", "%r10", "%r11d", "%r12w", "%r13b", "%rsi", "%rsp", "%ah", "%rbp"],
    "xmm": ["%xmm3", "%xmm15", "%xmm0"],
    "ymm": ["%ymm2", "%ymm14", "%ymm31"],
    "zmm": ["%zmm1", "%zmm31", "%zmm16"],
    "mm": ["%mm1", "%mm0", "%mm7"],
    "k": ["%k1", "%k7", "%k0"],
    "st": ["%st(1)", "%st"],
}
_A64_LANES = {"b": ["16", "8", ""], "h": ["8", "4", ""], "s": ["4", "2", ""], "d": ["2", "1", ""]}


def render(isa, kind, rnd=FIRST, first=True, last=False):
    """assembly text of one written operand of the given kind (`first`: operand position 1, `last`:
    final position - an AArch64 integer immediate may carry a shift there: `#1, lsl #12`)."""
    k = kind["k"]
    if isa == "x86":
        if k == "reg":
            t = rnd.choice(_X86_REGS[kind["c"]])
            if kind["m"]:
                t += rnd.choice(["{%k1}", "{%k2}{z}"])
            return t
        if k == "imm":
            return rnd.choice(["$42", "$-3", "$0x1f", "$0"])
        if k == "id":
            return rnd.choice(["sym", ".L12", "$sym"]) if first else "$sym"
        if k == "mem":
            off = {"": "", "imd": rnd.choice(["16", "-8", "0x20"]), "imd0": rnd.choice(["0", "0x0"]),
                   "id": rnd.choice(["sym", "tab_1"])}[kind["o"]]
            if not kind["b"] and not kind["i"]:
                if kind["o"] == "imd":
                    return rnd.choice(["4096", "0x1000"])
                if kind["o"] == "imd0":
                    return "0"
                raise ValueError("unrenderable x86 memory operand %s" % kstr(kind))
            base = rnd.choice(["%rax", "%rsp", "%r9", "%rbx"]) if kind["b"] else ""
            if kind["o"] == "id" and kind["b"] and not kind["i"] and rnd.random() < 0.5:
                base = "%rip"
            if kind["i"]:
                idx = rnd.choice(["%rcx", "%r11", "%rdx"]) if kind["i"] == "gpr" else rnd.choice(_X86_REGS[kind["i"]])
                if kind["sc"] == "n":
                    return "%s(%s,%s,%s)" % (off, base, idx, rnd.choice(["4", "8", "2"]))
                return "%s(%s,%s%s)" % (off, base, idx, rnd.choice(["", ",1"]))
            if kind["sc"] == "n":
                raise ValueError("scale without index %s" % kstr(kind))
            return "%s(%s)" % (off, base)
        raise ValueError("no x86 operand of kind %s" % kstr(kind))
    # ---- AArch64
    if k == "reg":
        c, s = kind["c"], kind["s"]
        n = rnd.choice(["3", "29", "0", "17"])
        if c in ("x", "w") and not s:
            if rnd.random() < 0.15:
                return "sp" if c == "x" else "wzr"
            return c + n
        if c in ("b", "h", "s", "d", "q") and not s:
            return c + n
        if c in ("v", "z"):
            if not s:
                return c + n
            lanes = rnd.choice(_A64_LANES[s]) if c == "v" else ""
            t = "%s%s.%s%s" % (c, n, lanes, s)
            if c == "v" and not lanes and rnd.random() < 0.5:
                t += "[1]"
            return t
        if c == "p":
            n = rnd.choice(["2", "0", "7"])
            if not s:
                return "p" + n + rnd.choice(["", "/m", "/z"])
            return "p%s.%s" % (n, s)
        raise ValueError("no AArch64 register of kind %s" % kstr(kind))
    if k == "imm":
        if kind["t"] == "int" and last and rnd.random() < 0.25:
            return rnd.choice(["#1, lsl #12", "#42, lsl #12", "#3, lsl 12"])
        return {"int": rnd.choice(["#42", "42", "#0x10", "#-1", "#0"]),
                "float": rnd.choice(["#1.5f", "#2.0e+1f"]),
                "double": rnd.choice(["#1.5", "#2.0e+1", "#0.5"])}[kind["t"]]
    if k == "id":
        return rnd.choice(["sym", ".L4", "foo_1", ":lo12:sym"])
    if k == "cc":
        return rnd.choice([kind["t"].lower(), kind["t"].upper()])
    if k == "prf":
        return rnd.choice(["pldl1keep", "PLDL1KEEP"])
    if k == "mem":
        base = rnd.choice(["x1", "sp", "x20"]) if kind["b"] == "x" else ("w1" if kind["b"] == "w" else None)
        if base is None:
            raise ValueError("AArch64 memory operand needs a base %s" % kstr(kind))
        if kind["o"] and kind["i"]:
            raise ValueError("offset and index together %s" % kstr(kind))
        inner = base
        if kind["o"]:
            inner += ", " + {"imd": rnd.choice(["#16", "16", "#-8"]), "imd0": rnd.choice(["#0", "0"]),
                             "id": rnd.choice([":lo12:sym", "sym"])}[kind["o"]]
        if kind["i"]:
            if kind["i"] == "x":
                inner += ", " + rnd.choice(["x2", "x9"])
                inner += ", lsl #%s" % rnd.choice(["2", "3"]) if kind["sc"] == "n" else rnd.choice(["", ", lsl #0"])
            elif kind["i"] == "w":
                inner += ", " + rnd.choice(["w2", "w9"])
                inner += (", %s #%s" % (rnd.choice(["sxtw", "uxtw"]), rnd.choice(["2", "3"]))) if kind["sc"] == "n" \
                    else ", " + rnd.choice(["sxtw", "uxtw"])
            elif kind["i"] == "z":
                inner += ", z2.d" + (", lsl #3" if kind["sc"] == "n" else "")
            else:
                raise ValueError("index class %s" % kstr(kind))
        elif kind["sc"] == "n":
            raise ValueError("scale without index %s" % kstr(kind))
        t = "[" + inner + "]"
        if kind["pre"] == "t" and kind["post"] == "t":
            raise ValueError("pre- and post-indexed at once %s" % kstr(kind))
        if kind["pre"] == "t":
            t += "!"
        if kind["post"] == "t":
            t += ", " + rnd.choice(["#16", "x5", "#-32"])
        return t
    raise ValueError("no AArch64 operand of kind %s" % kstr(kind))


def render_name(chars):
    return "".join(chars)


def render_line(isa, name, kinds, rnd=FIRST):
    ops = [render(isa, kd, rnd, first=(j == 0), last=(j == len(kinds) - 1)) for j, kd in enumerate(kinds)]
    return (name + " " + ", ".join(ops)).strip()


# ------------------------------------------------------------------ loaded entry operand -> kind
def project_entry_operand(isa, op):
    """Field-by-field abstraction of an operand object of a loaded model entry.
    Returns None if the declaration is outside the kind vocabulary (malformed entry: C15)."""
    tn = type(op).__name__
    if tn == "RegisterOperand":
        if isa == "x86":
            nm = op.name
            if not isinstance(nm, str):
                return None
            nm = nm.lower()
            m = "y" if op.mask else ""
            if nm in X86_CLASSES or nm == "*":
                return K("reg", c=nm, m=m)
            stripped = nm.rstrip("0123456789")
            if stripped in X86_CLASSES and stripped != nm:
                # a concrete register name used as class name: the kind of that register
                return K("reg", c=stripped, m=m, raw=nm)
            return None
        p = op.prefix
        if p not in A64_PREFIXES and p != "*":
            return None
        s = op.shape
        if s is None:
            s = ""
        if s not in A64_SHAPES and s not in ("", "*"):
            return None
        return K("reg", c=p, s=s)
    if tn == "MemoryOperand":
        def cls(x):
            if x is None:
                return ""
            if isinstance(x, str):
                return x.lower()
            if type(x).__name__ == "RegisterOperand":
                return (x.name or x.prefix or "?").lower()
            return "?"
        b, i = cls(op.base), cls(op.index)
        o = op.offset
        if o is None:
            o = ""
        elif isinstance(o, str) and o in ("imd", "id", "*"):
            pass
        else:
            return None
        sc = op.scale
        if sc is None:
            scs = ""
        elif sc == "*":
            scs = "*"
        elif isinstance(sc, int):
            scs = "1" if sc == 1 else "n"
        else:
            return None
        ok_cls = (X86_CLASSES if isa == "x86" else A64_PREFIXES) + ("", "*")
        if b not in ok_cls or i not in ok_cls:
            return None

        def flag(v):
            return "*" if v == "*" else ("t" if v else "f")
        if isa == "x86":
            return K("mem", b=b, o=o, i=i, sc=scs, pre="f", post="f")
        return K("mem", b=b, o=o, i=i, sc=scs, pre=flag(op.pre_indexed), post=flag(op.post_indexed))
    if tn == "ImmediateOperand":
        if op.imd_type in ("int", "float", "double", "*"):
            return K("imm", t=op.imd_type)
        return None
    if tn == "IdentifierOperand":
        return K("id")
    if tn == "ConditionOperand":
        return K("cc", t=str(op.ccode).upper())
    if tn == "PrefetchOperand":
        vals = [op.type_id, op.target, op.policy]
        if all(v == "*" for v in vals):
            return K("prf", t="*")
        return K("prf", t="pldl1keep")
    return None


# ------------------------------------------------------------------ written kind for an entry kind
def written_for(isa, e, rnd):
    """A written operand kind that an entry operand of kind `e` is meant for (wildcards are
    instantiated at random).  Raises ValueError if no operand of that kind can be written."""
    k = e["k"]
    if k == "reg":
        if isa == "x86":
            c = e["c"] if e["c"] != "*" else rnd.choice(["gpr", "xmm", "ymm", "zmm", "mm"])
            m = "y" if (e["m"] and c in ("xmm", "ymm", "zmm")) else ""
            return K("reg", c=c, m=m)
        c, s = e["c"], e["s"]
        if c == "*":
            c = rnd.choice(["v", "z"]) if s else rnd.choice(["x", "w", "d", "q", "s"])
        if s == "*":
            s = rnd.choice(A64_SHAPES)
        if s and c not in ("v", "z", "p"):
            raise ValueError("shape on scalar register")
        return K("reg", c=c, s=s)
    if k == "imm":
        t = e["t"]
        if isa == "x86":
            return K("imm", t="int")
        return K("imm", t=t if t != "*" else rnd.choice(["int", "double"]))
    if k == "id":
        return K("id")
    if k == "cc":
        return K("cc", t=e["t"] if e["t"] != "*" else rnd.choice(["EQ", "NE", "GE", "LT"]))
    if k == "prf":
        return K("prf", t="pldl1keep")
    if k == "mem":
        dflt = "gpr" if isa == "x86" else "x"
        i = e["i"] if e["i"] != "*" else rnd.choice(["", dflt])
        if isa == "aarch64":
            b = e["b"] if e["b"] != "*" else "x"
            if e["o"] == "*":
                o = "" if i else rnd.choice(["", "imd"])
            else:
                o = e["o"]
            if o and i:
                if e["i"] == "*":
                    i = ""
                else:
                    raise ValueError("offset and index together")
        else:
            b = e["b"] if e["b"] != "*" else rnd.choice(["gpr", "gpr", ""])
            o = e["o"] if e["o"] != "*" else rnd.choice(["", "imd", "imd", "id"])
            if not b and not i:
                if e["b"] == "*":
                    b = "gpr"
                elif e["o"] == "*":
                    o = "imd"
                elif o not in ("imd",):
                    raise ValueError("no base, no index, no displacement")
        sc = e["sc"]
        if sc == "*":
            sc = rnd.choice(["1", "n"]) if i else "1"
        elif sc == "":
            sc = "1"
        if sc == "n" and not i:
            raise ValueError("scale without index")
        if e["pre"] == "*" and e["post"] == "*":
            pre, post = rnd.choice([("f", "f"), ("t", "f"), ("f", "t")])
        else:
            pre = e["pre"] if e["pre"] != "*" else ("f" if e["post"] == "t" else rnd.choice(["f", "t"]))
            post = e["post"] if e["post"] != "*" else ("f" if pre == "t" else rnd.choice(["f", "t"]))
        if pre == "t" and post == "t":
            raise ValueError("pre- and post-indexed at once")
        if isa == "x86":
            pre = post = "f"
        return K("mem", b=b, o=o, i=i, sc=sc, pre=pre, post=post)
    raise ValueError(k)


def mutant_pool(isa):
    """written kinds used to replace / add one operand in near-miss mutants."""
    if isa == "x86":
        return [K("reg", c="gpr"), K("reg", c="xmm"), K("reg", c="ymm"), K("reg", c="zmm"), K("reg", c="mm"),
                K("reg", c="k"), K("imm", t="int"), K("id"),
                K("mem", b="gpr", sc="1", pre="f", post="f"),
                K("mem", b="gpr", o="imd", i="gpr", sc="n", pre="f", post="f"),
                K("mem", b="gpr", o="imd", sc="1", pre="f", post="f"),
                # gather / scatter addresses: a vector register as index is no general-purpose index
                K("mem", b="gpr", i="ymm", sc="n", pre="f", post="f"),
                K("mem", b="gpr", o="imd", i="xmm", sc="n", pre="f", post="f"),
                K("mem", b="gpr", i="zmm", sc="1", pre="f", post="f")]
    return [K("reg", c="x"), K("reg", c="w"), K("reg", c="d"), K("reg", c="s"), K("reg", c="q"),
            K("reg", c="v", s="s"), K("reg", c="v", s="d"), K("reg", c="v", s="b"), K("reg", c="z", s="d"),
            K("reg", c="p"), K("imm", t="int"), K("imm", t="double"), K("id"), K("cc", t="EQ"),
            K("mem", b="x", sc="1", pre="f", post="f"),
            K("mem", b="x", o="imd", sc="1", pre="f", post="f"),
            K("mem", b="x", o="imd", sc="1", pre="t", post="f"),
            K("mem", b="x", sc="1", pre="f", post="t"),
            K("mem", b="x", i="x", sc="n", pre="f", post="f")]


# ------------------------------------------------------------------ file order of a shipped model
_NAME_RE = re.compile(r"^- name:\s*(\[[^\]]*\]|[^#\s]+)")


def file_order_names(path):
    """[(names...)] of every instruction-form entry of a model file in FILE order, read from the
    text (independent of the loader, which moves multi-name entries to the end)."""
    out = []
    with open(path) as f:
        for line in f:
            if not line.startswith("- name:"):
                continue
            m = _NAME_RE.match(line)
            if not m:
                raise ValueError("unreadable name line %r in %s" % (line, path))
            v = m.group(1)
            if v.startswith("["):
                names = [x.strip().strip("'\"") for x in v[1:-1].split(",") if x.strip()]
            else:
                names = [v.strip("'\"")]
            out.append(tuple(n.upper() for n in names))
    return out


def _plain(v):
    """ruamel containers / numbers -> plain JSON-able value (for fingerprints)"""
    if isinstance(v, dict):
        return {str(k): _plain(x) for k, x in v.items()}
    if isinstance(v, (list, tuple)):
        return [_plain(x) for x in v]
    if isinstance(v, bool) or v is None:
        return v
    if isinstance(v, (int, float)):
        return float(v)
    return str(v)


def entry_fingerprint(throughput, latency, port_pressure):
    import json

    return json.dumps([_plain(throughput), _plain(latency), _plain(port_pressure)], sort_keys=True)


def file_order_fingerprints(path):
    """[fingerprint] of every instruction-form entry in FILE order (same indexing as file_order_names):
    throughput, latency and port_pressure read from the entry's own text lines.  Used to identify a
    loaded entry with its entry in the file WITHOUT assuming anything about the order the loader keeps."""
    import ruamel.yaml

    y = ruamel.yaml.YAML(typ="safe", pure=True)
    out, cur = [], None
    with open(path) as f:
        for line in f:
            if line.startswith("- name:"):
                if cur is not None:
                    out.append(cur)
                cur = {}
                continue
            if cur is None:
                continue
            for key in ("throughput", "latency", "port_pressure"):
                if line.startswith("  %s:" % key) and key not in cur:
                    try:
                        cur[key] = y.load(line.split(":", 1)[1].split(" #")[0])
                    except Exception:  # noqa
                        cur[key] = "unparsable"
    if cur is not None:
        out.append(cur)
    return [entry_fingerprint(c.get("throughput"), c.get("latency"), c.get("port_pressure")) for c in out]


def chars(name):
    return list(name)
