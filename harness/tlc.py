"""Thin driver around TLC (tla2tools 1.8): exhaustive model checking, simulation and
batch trace validation.  All specs live in /verif/specs; every run gets a private metadir
under /verif/.work/tlc that is removed afterwards."""
import json
import os
import re
import shutil
import subprocess
import tempfile
import time

VERIF = os.path.dirname(os.path.dirname(os.path.abspath(__file__)))
SPECS = os.path.join(VERIF, "specs")
WORK = os.path.join(VERIF, ".work")
JAR = "/opt/veriftools/tla/tla2tools.jar:/opt/veriftools/tla/CommunityModules-deps.jar"


class TLCError(Exception):
    """Machinery failure (TLC crashed, spec does not parse, timeout)."""


class MCResult:
    def __init__(self):
        self.generated = 0
        self.distinct = 0
        self.depth = 0
        self.ok = False
        self.violated = []  # names of violated invariants / properties
        self.printed = []  # PrintT values (raw text)
        self.coverage = {}  # action name -> (distinct, total)
        self.wall = 0.0
        self.raw = ""
        self.cmd = ""

    @property
    def transitions(self):
        return max(self.generated - 1, 0)

    def as_dict(self):
        return {
            "states": self.distinct,
            "transitions": self.transitions,
            "depth": self.depth,
            "wall_s": round(self.wall, 2),
            "cmd": self.cmd,
        }


_RE_STATES = re.compile(r"(\d+) states generated, (\d+) distinct states found, (\d+) states left")
_RE_DEPTH = re.compile(r"The depth of the complete state graph search is (\d+)")
_RE_INV = re.compile(r"Error: Invariant (\S+) is violated")
_RE_PROP = re.compile(r"Error: (?:Action|Temporal) propert(?:y|ies) (\S+)? ?(?:is|were) violated")
_RE_COV = re.compile(r"^<(\w+) line \d+, col \d+ to line \d+, col \d+ of module (\w+)>: (\d+):(\d+)")


def _workdir(tag):
    os.makedirs(os.path.join(WORK, "tlc"), exist_ok=True)
    return tempfile.mkdtemp(prefix=tag + "-", dir=os.path.join(WORK, "tlc"))


def run_tlc(
    module,
    cfg=None,
    env=None,
    workers="auto",
    timeout=900,
    coverage=False,
    simulate=None,
    depth=None,
    seed=None,
    extra=(),
    java_opts=(),
    deadlock=None,
    allow_violation=False,
    dump=None,
):
    """Run TLC on specs/<module>.tla with specs/<cfg>.cfg.  Returns MCResult.
    Raises TLCError on anything that is not a clean completion or a reported property
    violation."""
    meta = _workdir(module)
    # SerialGC without -Xms: page faults are expensive in this sandbox (measured 4.7 s vs 11-23 s)
    # deep recursive folds over long traces; SANY's scratch directories go to the run's own directory, not /tmp
    cmd = ["java", "-XX:+UseSerialGC", "-Xmx8g", "-Xss256m", "-Djava.io.tmpdir=" + meta]
    cmd += list(java_opts)
    cmd += ["-cp", JAR, "tlc2.TLC", "-metadir", meta, "-noGenerateSpecTE"]
    cmd += ["-workers", str(workers)]
    if cfg:
        cmd += ["-config", cfg if cfg.endswith(".cfg") else cfg + ".cfg"]
    if coverage:
        cmd += ["-coverage", "1"]
    if simulate:
        cmd += ["-simulate", simulate]
    if depth:
        cmd += ["-depth", str(depth)]
    if seed is not None:
        cmd += ["-seed", str(seed)]
    if deadlock is False:
        cmd += ["-deadlock"]
    if dump:
        cmd += ["-dump", "dot,actionlabels", dump]
    cmd += list(extra)
    cmd += [module]
    e = dict(os.environ)
    e.pop("JAVA_TOOL_OPTIONS", None)
    if env:
        e.update({k: str(v) for k, v in env.items()})
    t0 = time.time()
    try:
        p = subprocess.run(
            cmd, cwd=SPECS, env=e, stdout=subprocess.PIPE, stderr=subprocess.STDOUT, timeout=timeout
        )
    except subprocess.TimeoutExpired as ex:
        shutil.rmtree(meta, ignore_errors=True)
        raise TLCError("TLC timeout after %ss: %s" % (timeout, " ".join(cmd))) from ex
    finally:
        pass
    out = p.stdout.decode("utf-8", "replace")
    shutil.rmtree(meta, ignore_errors=True)
    r = MCResult()
    r.raw = out
    r.wall = time.time() - t0
    r.cmd = "tlc -config %s %s" % (cfg, module)
    for m in _RE_STATES.finditer(out):
        r.generated, r.distinct = int(m.group(1)), int(m.group(2))
    m = _RE_DEPTH.search(out)
    if m:
        r.depth = int(m.group(1))
    r.violated = _RE_INV.findall(out)
    if "is violated" in out or "violated." in out:
        for line in out.splitlines():
            if line.startswith("Error:") and "violated" in line and "Invariant" not in line:
                r.violated.append(line[len("Error: "):].strip())
    for line in out.splitlines():
        if line.startswith("<<") or line.startswith('"') or line.startswith("["):
            r.printed.append(line.strip())
        m = _RE_COV.match(line)
        if m:
            r.coverage[m.group(1)] = (int(m.group(3)), int(m.group(4)))
    r.ok = "Model checking completed. No error has been found." in out or (
        simulate is not None and p.returncode == 0
    )
    if not r.ok and not (allow_violation and r.violated):
        tail = "\n".join(out.splitlines()[-40:])
        raise TLCError("TLC failed (rc=%s) on %s/%s:\n%s" % (p.returncode, module, cfg, tail))
    return r


def parse_tuple(line):
    """Parse a printed TLA+ value made of tuples, strings, ints, booleans, sets and records
    with string/int fields into Python (tuples -> lists, sets -> lists, records -> dicts)."""
    s = line.strip()
    pos = 0

    def ws():
        nonlocal pos
        while pos < len(s) and s[pos] in " \n\t":
            pos += 1

    def val():
        nonlocal pos
        ws()
        if s.startswith("<<", pos):
            pos += 2
            items = []
            ws()
            if s.startswith(">>", pos):
                pos += 2
                return items
            while True:
                items.append(val())
                ws()
                if s.startswith(">>", pos):
                    pos += 2
                    return items
                assert s[pos] == ",", (s, pos)
                pos += 1
        if s[pos] == "{":
            pos += 1
            items = []
            ws()
            if s[pos] == "}":
                pos += 1
                return items
            while True:
                items.append(val())
                ws()
                if s[pos] == "}":
                    pos += 1
                    return items
                assert s[pos] == ",", (s, pos)
                pos += 1
        if s[pos] == "[":
            pos += 1
            d = {}
            while True:
                ws()
                m = re.match(r"(\w+)\s*\|->", s[pos:])
                assert m, (s, pos)
                pos += m.end()
                d[m.group(1)] = val()
                ws()
                if s[pos] == "]":
                    pos += 1
                    return d
                assert s[pos] == ",", (s, pos)
                pos += 1
        if s[pos] == '"':
            end = pos + 1
            buf = []
            while s[end] != '"':
                if s[end] == "\\":
                    end += 1
                buf.append(s[end])
                end += 1
            pos = end + 1
            return "".join(buf)
        m = re.match(r"-?\d+", s[pos:])
        if m:
            pos += m.end()
            return int(m.group(0))
        m = re.match(r"TRUE|FALSE", s[pos:])
        if m:
            pos += m.end()
            return m.group(0) == "TRUE"
        m = re.match(r"\w+", s[pos:])
        if m:
            pos += m.end()
            return m.group(0)
        raise ValueError("cannot parse TLA+ value at %d: %r" % (pos, s))

    return val()


def printed_tuples(raw, tag):
    """All PrintT'ed tuples <<"tag", ...>> in TLC's output.  TLC pretty-prints long values over
    several lines, so match brackets across newlines instead of looking at single lines."""
    out = []
    for m in re.finditer(r'<<\s*"%s"' % re.escape(tag), raw):
        i, depth, in_str = m.start(), 0, False
        j = i
        while j < len(raw):
            ch = raw[j]
            if in_str:
                if ch == "\\":
                    j += 1
                elif ch == '"':
                    in_str = False
            elif ch == '"':
                in_str = True
            elif raw.startswith("<<", j):
                depth += 1
                j += 1
            elif raw.startswith(">>", j):
                depth -= 1
                j += 1
                if depth == 0:
                    out.append(raw[i:j + 1])
                    break
            j += 1
    return out


def _strip_none(v):
    """TLC's Json module rejects null: drop None-valued keys (specs never read them)."""
    if isinstance(v, dict):
        return {k: _strip_none(x) for k, x in v.items() if x is not None}
    if isinstance(v, (list, tuple)):
        return [_strip_none(x) for x in v]
    return v


def batch_validate(module, cfg, cases, env=None, timeout=900, tag=None):
    """Validate a list of JSON-able cases (each with an 'id') with a Trace_* module that
    reads them from IOEnv.CASES (ndjson), prints <<"REJECT", id, clause>> for each rejected
    case and has a POSTCONDITION that every case was consumed.
    Returns (rejects: list[(id, clause)], MCResult)."""
    os.makedirs(os.path.join(WORK, "cases"), exist_ok=True)
    fd, path = tempfile.mkstemp(prefix=(tag or module) + "-", suffix=".ndjson", dir=os.path.join(WORK, "cases"))
    with os.fdopen(fd, "w") as f:
        for c in cases:
            f.write(json.dumps(_strip_none(c), separators=(",", ":")) + "\n")
    e = {"CASES": path}
    if env:
        e.update(env)
    try:
        r = run_tlc(module, cfg, env=e, workers=1, timeout=timeout, deadlock=False)
    finally:
        os.unlink(path)
    rejects = []
    for text in printed_tuples(r.raw, "REJECT"):
        v = parse_tuple(text)
        rejects.append((v[1], v[2] if len(v) > 2 else "?", v[3:] if len(v) > 3 else []))
    if len(rejects) != len(re.findall(r'<<\s*"REJECT"', r.raw)):
        raise TLCError("could not parse every REJECT tuple in TLC output of %s" % module)
    return rejects, r


def read_emitted(path):
    """Read records written by CSVWrite("%1$s", <<ToJson(rec)>>, file)."""
    out = []
    if not os.path.exists(path):
        return out
    with open(path) as f:
        for line in f:
            line = line.strip()
            if not line:
                continue
            v = json.loads(line)
            if isinstance(v, str):
                v = json.loads(v)
            out.append(v)
    return out
