"""C06: store ... pointer updates ... load programs, rendered for both ISAs from one abstract
description.  flavour 'real' uses real mnemonics (shipped models + shipped ISA DBs), flavour
'syn' uses made-up mnemonics whose roles and constant-change operations are defined in a
synthetic ISA DB (arbitrary names, same semantics)."""
import os

from harness import deps_common as dc
from harness import synth

PTR = {"x86": ["gpr:b", "gpr:si", "gpr:d", "gpr:r8"], "aarch64": ["gp:1", "gp:2", "gp:3", "gp:9"]}
DATA = {"x86": ["gpr:a", "gpr:c", "gpr:r11"], "aarch64": ["gp:0", "gp:17", "gp:28"]}
MN = {
    "real": {"x86": dict(st="movq", ld="movq", add="addq", sub="subq", inc="incq", dec="decq", cpy="movq", clb="imulq",
                         rmw="incq"),
             "aarch64": dict(st="str", ld="ldr", add="add", sub="sub", cpy="mov", clb="mul")},
    "syn": {"x86": dict(st="sto", ld="lod", add="adi", sub="sbi", inc="inc1", dec="dec1", cpy="cpy", clb="clb", rmw="rmi"),
            "aarch64": dict(st="sto", ld="lod", add="adi", sub="sbi", cpy="cpy", clb="clb", rmw="rmi")},
}


def wide(isa, fam):
    return dc.reg_name(isa, fam, None, wide=True)


_EXT = [None]   # "sxtw" / "uxtw" while a program with extended-register indices is generated (AArch64)


def memtext(isa, b, x, s, d, mode=None, imm=0):
    """mode: None | 'pre' | 'post' (AArch64 only)."""
    if isa == "x86":
        inner = "%" + wide(isa, b) if b else ""
        if x:
            inner += ",%" + wide(isa, x) + ("," + str(s) if s != 1 or True else "")
        return ("%d" % d if d else "") + "(" + inner + ")"
    if mode == "postreg":
        return "[%s], x27" % wide(isa, b)   # amount register that no generated instruction writes
    if mode == "post":
        return "[%s], #%d" % (wide(isa, b), imm)
    if mode == "pre":
        return "[%s, #%d]!" % (wide(isa, b), imm)
    if x and _EXT[0]:
        # extended-register index: the 32-bit view of the index register, sign/zero-extended and shifted; every access of
        # one program uses the same extension, so two references are the same address iff base, index and shift agree
        sh = {1: 0, 2: 1, 4: 2, 8: 3}[s]
        w = "w" + wide(isa, x)[1:]
        return "[%s, %s, %s #%d]" % (wide(isa, b), w, _EXT[0], sh) if sh else "[%s, %s, %s]" % (wide(isa, b), w, _EXT[0])
    if x:
        sh = {1: 0, 2: 1, 4: 2, 8: 3}[s]
        return "[%s, %s, lsl #%d]" % (wide(isa, b), wide(isa, x), sh) if sh else "[%s, %s]" % (wide(isa, b), wide(isa, x))
    return "[%s, #%d]" % (wide(isa, b), d) if d else "[%s]" % wide(isa, b)


def _base(text):
    return {"text": text, "R": set(), "W": set(), "WB": set(), "FR": [], "FW": [], "lat": 0, "latwo": 0, "lds": False,
            "ST": [], "LD": [], "CH": [], "shape": "?"}


def _fin(ins):
    for f in ("R", "W", "WB"):
        ins[f] = sorted(ins[f])
    return ins


def store(isa, fl, src, b, x, s, d, mode=None, imm=0):
    m = MN[fl][isa]
    t = memtext(isa, b, x, s, d, mode, imm)
    if isa == "x86":
        ins = _base("%s %%%s, %s" % (m["st"], wide(isa, src), t))
    else:
        ins = _base("%s %s, %s" % (m["st"], wide(isa, src), t))
    ins["R"] |= {src, b} | ({x} if x else set())
    eff = imm if mode == "pre" else (0 if mode in ("post", "postreg") else d)
    ins["ST"] = [{"b": b, "x": x or "", "s": s, "d": eff, "t": t}]
    if mode == "postreg":
        ins["WB"].add(b)
    elif mode:
        ins["WB"].add(b)
        ins["CH"] = [{"r": b, "kind": "add", "src": b, "v": imm}]
    ins["shape"] = "st" + (mode or "") + ("x" if x else "")
    return _fin(ins)


def load(isa, fl, dst, b, x, s, d, mode=None, imm=0):
    m = MN[fl][isa]
    t = memtext(isa, b, x, s, d, mode, imm)
    if isa == "x86":
        ins = _base("%s %s, %%%s" % (m["ld"], t, wide(isa, dst)))
    else:
        ins = _base("%s %s, %s" % (m["ld"], wide(isa, dst), t))
    ins["R"] |= {b} | ({x} if x else set())
    ins["W"].add(dst)
    eff = imm if mode == "pre" else (0 if mode in ("post", "postreg") else d)
    ins["LD"] = [{"b": b, "x": x or "", "s": s, "d": eff, "t": t}]
    if mode == "postreg":
        ins["WB"].add(b)
    elif mode:
        ins["WB"].add(b)
        ins["CH"] = [{"r": b, "kind": "add", "src": b, "v": imm}]
    ins["shape"] = "ld" + (mode or "") + ("x" if x else "")
    return _fin(ins)


def rmw(isa, fl, src, b, x, s, d):
    """Read-modify-write of a memory location: a load and a store of the same operand, with
    flag outputs (several destination operands on one instruction)."""
    m = MN[fl][isa]
    if "rmw" not in m:
        return None
    t = memtext(isa, b, x, s, d)
    one_operand = False
    if isa == "x86" and fl == "real":
        # incq mem has an ISA entry of its own; adcq/sbbq reg, mem are only described by their un-suffixed
        # register form (reached through the suffix fall-back on the memory-substituted operands)
        mn = ["incq", "adcq", "sbbq"][(d // 8 + len(b) + (s if x else 0)) % 3]
        one_operand = mn == "incq"
        ins = _base("%s %s" % (mn, t)) if one_operand else _base("%s %%%s, %s" % (mn, wide(isa, src), t))
    elif isa == "x86":
        ins = _base("%s %%%s, %s" % (m["rmw"], wide(isa, src), t))
    else:
        ins = _base("%s %s, %s" % (m["rmw"], wide(isa, src), t))
    ins["R"] |= {b} | ({x} if x else set()) | (set() if one_operand else {src})
    ref = {"b": b, "x": x or "", "s": s, "d": d, "t": t}
    ins["ST"] = [dict(ref)]
    ins["LD"] = [dict(ref)]
    ins["FW"] = ["f:C"]
    ins["shape"] = "rmw" + ("x" if x else "")
    return _fin(ins)


_ALT = [0]


def bump(isa, fl, r, v):
    m = MN[fl][isa]
    if isa == "x86":
        if v in (1, -1) and True:
            ins = _base("%s %%%s" % (m["inc"] if v == 1 else m["dec"], wide(isa, r)))
        else:
            ins = _base("%s $%d, %%%s" % (m["add"] if v > 0 else m["sub"], abs(v), wide(isa, r)))
    else:
        mn = m["add"] if v > 0 else m["sub"]
        if fl == "real":
            # the flag-setting forms move the pointer exactly like the plain ones (every other real bump uses them)
            _ALT[0] ^= 1
            mn += "s" if _ALT[0] else ""
        ins = _base("%s %s, %s, #%d" % (mn, wide(isa, r), wide(isa, r), abs(v)))
    ins["R"].add(r)
    ins["W"].add(r)
    ins["CH"] = [{"r": r, "kind": "add", "src": r, "v": v}]
    if isa == "x86":
        # arithmetic writes the flags (only relevant with flag dependencies, which C06 leaves off)
        pass
    ins["shape"] = "bump"
    return _fin(ins)


def copy(isa, fl, dst, src, v=0):
    m = MN[fl][isa]
    if isa == "x86":
        ins = _base("%s %%%s, %%%s" % (m["cpy"], wide(isa, src), wide(isa, dst)))
        v = 0
    elif v:
        ins = _base("%s %s, %s, #%d" % (m["add"] if v > 0 else m["sub"], wide(isa, dst), wide(isa, src), abs(v)))
    else:
        ins = _base("%s %s, %s" % (m["cpy"], wide(isa, dst), wide(isa, src)))
    ins["R"].add(src)
    ins["W"].add(dst)
    ins["CH"] = [{"r": dst, "kind": "copy", "src": src, "v": v}]
    ins["shape"] = "copy"
    return _fin(ins)


def clobber(isa, fl, dst, src):
    m = MN[fl][isa]
    if isa == "x86":
        ins = _base("%s %%%s, %%%s" % (m["clb"], wide(isa, src), wide(isa, dst)))
        ins["R"] |= {src, dst}
    else:
        ins = _base("%s %s, %s, %s" % (m["clb"], wide(isa, dst), wide(isa, src), wide(isa, src)))
        ins["R"].add(src)
    ins["W"].add(dst)
    ins["shape"] = "clobber"
    return _fin(ins)


def gen_program(isa, fl, rnd, max_mid=4):
    """store ; <= max_mid pointer operations / distractors ; load [; more loads]."""
    ptr = rnd.sample(PTR[isa], 3)
    b, b2, xr = ptr
    use_index = rnd.random() < 0.3
    _EXT[0] = rnd.choice(["sxtw", "uxtw"]) if (isa == "aarch64" and use_index and rnd.random() < 0.35) else None
    s = rnd.choice([1, 2, 4, 8]) if use_index else 1
    disp = lambda: rnd.choice([-16, -8, 0, 0, 8, 16])
    instrs = []
    st_mode = None
    if isa == "aarch64" and not use_index and rnd.random() < 0.2:
        st_mode = rnd.choice(["pre", "post"])
    d0 = 0 if (isa == "aarch64" and use_index) else disp()
    first = None
    if st_mode is None and rnd.random() < 0.25:
        first = rmw(isa, fl, rnd.choice(DATA[isa]), b, xr if use_index else None, s, d0)
    if first is None:
        first = store(isa, fl, rnd.choice(DATA[isa]), b, xr if use_index else None, s, d0, st_mode, rnd.choice([8, 16, -8]))
    instrs.append(first)
    regs_now = [b]   # registers that (may) hold the base value
    for _ in range(rnd.randint(0, max_mid)):
        r = rnd.random()
        tgt = rnd.choice(regs_now + ([xr] if use_index else []))
        if r < 0.35:
            v = rnd.choice([8, -8, 16, -16, 1, -1] if isa == "x86" else [8, -8, 16, -16])
            instrs.append(bump(isa, fl, tgt, v))
        elif r < 0.5:
            instrs.append(copy(isa, fl, b2, rnd.choice(regs_now), rnd.choice([0, 0, 8, -8])))
            if b2 not in regs_now:
                regs_now.append(b2)
        elif r < 0.58:
            instrs.append(clobber(isa, fl, tgt, rnd.choice(DATA[isa])))
        elif r < 0.68 and isa == "aarch64":
            instrs.append(load(isa, fl, rnd.choice(DATA[isa]), tgt, None, 1, 0, rnd.choice(["pre", "post", "post", "postreg"]), rnd.choice([8, -8, 16])))
        elif r < 0.76:
            # a later store: to the very same operand (ends the search) or elsewhere
            if rnd.random() < 0.5:
                first = instrs[0]["ST"][0]
                instrs.append(store(isa, fl, rnd.choice(DATA[isa]), first["b"], first["x"] or None, first["s"],
                                    d0 if not st_mode else 0, None))
            else:
                instrs.append(store(isa, fl, rnd.choice(DATA[isa]), rnd.choice(regs_now), None, 1, disp()))
        elif r < 0.86:
            instrs.append(load(isa, fl, rnd.choice(DATA[isa]), rnd.choice(regs_now), None, 1, disp()))
        elif r < 0.92 and rmw(isa, fl, DATA[isa][0], b, None, 1, 0) is not None:
            instrs.append(rmw(isa, fl, rnd.choice(DATA[isa]), rnd.choice(regs_now), None, 1, disp()))
        else:
            instrs.append(dc.noise_instr(isa, rnd, len(instrs)))
    for _ in range(rnd.randint(1, 2)):
        lb = rnd.choice(regs_now)
        lx = xr if (use_index and rnd.random() < 0.8) else None
        ls = s if rnd.random() < 0.8 else rnd.choice([1, 2, 4, 8])
        ld_mode = None
        if isa == "aarch64" and not lx and rnd.random() < 0.15:
            ld_mode = rnd.choice(["pre", "post"])
        ldd = 0 if (isa == "aarch64" and lx) else disp()
        instrs.append(load(isa, fl, rnd.choice(DATA[isa]), lb, lx, ls if lx else 1, ldd, ld_mode, rnd.choice([8, -8])))
    if isa == "x86" and rnd.random() < 0.12:
        # register names are case-insensitive for the assembler: one pointer register written in upper case
        # throughout the program (as operand and inside memory references alike)
        name = "%" + wide(isa, rnd.choice(ptr))
        for ins in instrs:
            ins["text"] = ins["text"].replace(name + ",", name.upper() + ",").replace(name + ")", name.upper() + ")")
            if ins["text"].endswith(name):
                ins["text"] = ins["text"][:-len(name)] + name.upper()
    return instrs


# ------------------------------------------------------------------------------------------
def write_syn_models(isa, dirpath, rnd, fwd):
    """Synthetic arch model + ISA DB for the 'syn' flavour mnemonics."""
    m = MN["syn"][isa]
    R = lambda s=None, d=None: synth.reg(isa, "*", s, d) if isa == "x86" else {"class": "register", "prefix": "*", **({"source": s, "destination": d} if s is not None else {})}
    if isa == "x86":
        R = lambda s=None, d=None: {"class": "register", "name": "*", **({"source": s, "destination": d} if s is not None else {})}
    M = lambda s=None, d=None: {"class": "memory", "base": "*", "offset": "*", "index": "*", "scale": "*",
                                **({"pre_indexed": "*", "post_indexed": "*"} if isa == "aarch64" else {}),
                                **({"source": s, "destination": d} if s is not None else {})}
    I = lambda s=None, d=None: {"class": "immediate", "imd": "int", **({"source": s, "destination": d} if s is not None else {})}
    # latencies written as integers too (`latency: 2`), as most shipped entries are: the YAML loader hands those out
    # as its own integer type, and a fractional forwarding latency has to survive being added to one
    lat = lambda: rnd.choice([0.0, 1.0, 2.0, 4.0, 0, 1, 3, 1.5])
    forms, isaforms = [], []

    def add(name, arch_ops, isa_ops=None, operation=None):
        forms.append({"name": name, "operands": arch_ops, "throughput": 1.0, "latency": lat(), "port_pressure": [[1, "0"]]})
        if isa_ops is not None:
            f = {"name": name, "operands": isa_ops}
            if operation:
                f["operation"] = operation
            isaforms.append(f)

    if isa == "x86":
        add(m["st"], [R(), M()], None)                                     # default rule: last operand written
        add(m["ld"], [M(), R()], None)
        add(m["add"], [I(), R()], [I(True, False), R(True, True)], "op2['value'] += op1['value']")
        add(m["sub"], [I(), R()], [I(True, False), R(True, True)], "op2['value'] -= op1['value']")
        add(m["inc"], [R()], [R(True, True)], "op1['value'] += 1")
        add(m["dec"], [R()], [R(True, True)], "op1['value'] -= 1")
        add(m["cpy"], [R(), R()], [R(True, False), R(False, True)], "op2['name'] = op1['name']; op2['value'] = op1['value']")
        add(m["clb"], [R(), R()], [R(True, False), R(True, True)], None)
        add(m["rmw"], [R(), M()], [R(True, False), M(True, True)], None)
        isaforms[-1]["hidden_operands"] = [synth.flag("C", False, True)]
    else:
        add(m["st"], [R(), M()], [R(True, False), M(False, True)])
        add(m["ld"], [R(), M()], None)                                     # default rule: first operand written
        add(m["add"], [R(), R(), I()], [R(False, True), R(True, False), I(True, False)],
            "op1['value'] = op2['value'] + op3['value']; op1['name'] = op2['name']")
        add(m["sub"], [R(), R(), I()], [R(False, True), R(True, False), I(True, False)],
            "op1['value'] = op2['value'] - op3['value']; op1['name'] = op2['name']")
        add(m["cpy"], [R(), R()], [R(False, True), R(True, False)], "op1['name'] = op2['name']; op1['value'] = op2['value']")
        add(m["clb"], [R(), R(), R()], None)
        add(m["rmw"], [R(), M()], [R(True, False), M(True, True)], None)
        isaforms[-1]["hidden_operands"] = [synth.flag("C", False, True)]
    arch = synth.write_arch_model(os.path.join(dirpath, "syn_%s.yml" % isa), isa, ["0", "1"], forms,
                                  load_default=[[1, "1"]], store_default=[[1, "1"]],
                                  # every second model hides loads behind stores (a port-pressure matter: the edges and
                                  # their weights, forwarding latency included, are what they are without it)
                                  extras={"store_to_load_forward_latency": fwd, "p_index_latency": 1.0,
                                          "hidden_loads": rnd.random() < 0.5})
    isadb = synth.write_isa_db(os.path.join(dirpath, "syn_isa_%s.yml" % isa), isa, isaforms)
    return arch, isadb
