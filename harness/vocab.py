"""Curated vocabulary of real instructions with architecturally known operand roles
(Intel SDM / Arm ARM), used for C03-C05/C14 on shipped models.  Only instructions whose
architectural roles an analyser can know are listed: either the form follows the documented
default rule (x86 AT&T: last operand written, all others read; AArch64: first operand written,
all others read) or it is a read-modify-write / flag form of the kind the ISA databases describe.

entry = (template, roles, classes, flags_read, flags_written, zero_idiom)
 roles per written operand: 's' read, 'd' written, 'sd' read and written
 classes: x86  q/l/w/b = 64/32/16/8-bit GPR, x/y/z = xmm/ymm/zmm
          a64  x/w = GPR, d/s/q = FP scalar views, v2d/v4s = vector arrangement
"""
import random

X86_ALL = ["CF", "OF", "SF", "ZF", "AF", "PF"]
X86_NOCF = ["OF", "SF", "ZF", "AF", "PF"]
A64_NZCV = ["N", "Z", "C", "V"]

X86 = [
    ("movq {0}, {1}", ["s", "d"], ["q", "q"], [], [], False),
    ("movl {0}, {1}", ["s", "d"], ["l", "l"], [], [], False),
    ("addq {0}, {1}", ["s", "sd"], ["q", "q"], [], X86_ALL, False),
    ("addl {0}, {1}", ["s", "sd"], ["l", "l"], [], X86_ALL, False),
    ("subq {0}, {1}", ["s", "sd"], ["q", "q"], [], X86_ALL, True),
    ("adcq {0}, {1}", ["s", "sd"], ["q", "q"], ["CF"], X86_ALL, False),
    ("sbbq {0}, {1}", ["s", "sd"], ["q", "q"], ["CF"], X86_ALL, False),
    ("andq {0}, {1}", ["s", "sd"], ["q", "q"], [], X86_ALL, False),
    ("orq {0}, {1}", ["s", "sd"], ["q", "q"], [], X86_ALL, False),
    ("xorq {0}, {1}", ["s", "sd"], ["q", "q"], [], X86_ALL, True),
    ("imulq {0}, {1}", ["s", "sd"], ["q", "q"], [], None, False),
    ("incq {0}", ["sd"], ["q"], [], X86_NOCF, False),
    ("decq {0}", ["sd"], ["q"], [], X86_NOCF, False),
    ("cmpq {0}, {1}", ["s", "s"], ["q", "q"], [], X86_ALL, False),
    ("testq {0}, {1}", ["s", "s"], ["q", "q"], [], X86_ALL, False),
    ("popcntq {0}, {1}", ["s", "d"], ["q", "q"], [], None, False),
    ("leaq 8({0},{1},4), {2}", ["s", "s", "d"], ["q", "q", "q"], [], [], False),
    ("vaddpd {0}, {1}, {2}", ["s", "s", "d"], ["y", "y", "y"], [], [], False),
    ("vmulpd {0}, {1}, {2}", ["s", "s", "d"], ["y", "y", "y"], [], [], False),
    ("vsubpd {0}, {1}, {2}", ["s", "s", "d"], ["x", "x", "x"], [], [], False),
    ("vaddpd {0}, {1}, {2}", ["s", "s", "d"], ["z", "z", "z"], [], [], False),
    ("vfmadd231pd {0}, {1}, {2}", ["s", "s", "sd"], ["y", "y", "y"], [], [], False),
    ("vmovapd {0}, {1}", ["s", "d"], ["y", "y"], [], [], False),
    ("vxorpd {0}, {1}, {2}", ["s", "s", "d"], ["y", "y", "y"], [], [], True),
    ("addsd {0}, {1}", ["s", "sd"], ["x", "x"], [], [], False),
    ("mulpd {0}, {1}", ["s", "sd"], ["x", "x"], [], [], False),
    ("pxor {0}, {1}", ["s", "sd"], ["x", "x"], [], [], True),
    ("vcvtsi2sdq {0}, {1}, {2}", ["s", "s", "d"], ["q", "x", "x"], [], [], False),
    # shifts: by an immediate and by %cl (an implicit-looking but written operand: 7th field = families read besides
    # the written operands); the flags a shift leaves depend on the count, so they are not judged (None)
    ("shlq $3, {0}", ["sd"], ["q"], [], None, False),
    ("sarq $1, {0}", ["sd"], ["q"], [], None, False),
    ("shrl $7, {0}", ["sd"], ["l"], [], None, False),
    ("shlq %cl, {0}", ["sd"], ["q"], [], None, False, ["gpr:c"]),
    ("sarl %cl, {0}", ["sd"], ["l"], [], None, False, ["gpr:c"]),
    ("shrq %cl, {0}", ["sd"], ["q"], [], None, False, ["gpr:c"]),
    # three-operand multiply next to the two-operand form above
    ("imulq $3, {0}, {1}", ["s", "d"], ["q", "q"], [], None, False),
    ("negq {0}", ["sd"], ["q"], [], X86_ALL, False),
    ("notq {0}", ["sd"], ["q"], [], [], False),
]
# instructions whose operands are all implicit: (text, families read, families written)
X86_IMPLICIT = [
    ("cltq", ["gpr:a"], ["gpr:a"]),       # sign-extend eax into rax
    ("cqto", ["gpr:a"], ["gpr:d"]),       # sign-extend rax into rdx:rax
]

A64 = [
    ("mov {0}, {1}", ["d", "s"], ["x", "x"], [], [], False),
    ("add {0}, {1}, {2}", ["d", "s", "s"], ["x", "x", "x"], [], [], False),
    ("add {0}, {1}, {2}", ["d", "s", "s"], ["w", "w", "w"], [], [], False),
    ("sub {0}, {1}, {2}", ["d", "s", "s"], ["x", "x", "x"], [], [], False),
    ("adds {0}, {1}, {2}", ["d", "s", "s"], ["x", "x", "x"], [], A64_NZCV, False),
    ("subs {0}, {1}, {2}", ["d", "s", "s"], ["x", "x", "x"], [], A64_NZCV, False),
    ("adcs {0}, {1}, {2}", ["d", "s", "s"], ["x", "x", "x"], ["C"], A64_NZCV, False),
    ("mul {0}, {1}, {2}", ["d", "s", "s"], ["x", "x", "x"], [], [], False),
    ("madd {0}, {1}, {2}, {3}", ["d", "s", "s", "s"], ["x", "x", "x", "x"], [], [], False),
    ("and {0}, {1}, {2}", ["d", "s", "s"], ["x", "x", "x"], [], [], False),
    ("orr {0}, {1}, {2}", ["d", "s", "s"], ["x", "x", "x"], [], [], False),
    ("lsl {0}, {1}, {2}", ["d", "s", "s"], ["x", "x", "x"], [], [], False),
    ("cmp {0}, {1}", ["s", "s"], ["x", "x"], [], A64_NZCV, False),
    ("csel {0}, {1}, {2}, ne", ["d", "s", "s"], ["x", "x", "x"], ["Z"], [], False),
    ("cset {0}, ne", ["d"], ["x"], ["Z"], [], False),
    ("fadd {0}, {1}, {2}", ["d", "s", "s"], ["d", "d", "d"], [], [], False),
    ("fmul {0}, {1}, {2}", ["d", "s", "s"], ["d", "d", "d"], [], [], False),
    ("fsub {0}, {1}, {2}", ["d", "s", "s"], ["s", "s", "s"], [], [], False),
    ("fmadd {0}, {1}, {2}, {3}", ["d", "s", "s", "s"], ["d", "d", "d", "d"], [], [], False),
    ("fadd {0}, {1}, {2}", ["d", "s", "s"], ["v2d", "v2d", "v2d"], [], [], False),
    ("fmul {0}, {1}, {2}", ["d", "s", "s"], ["v4s", "v4s", "v4s"], [], [], False),
    ("fmla {0}, {1}, {2}", ["sd", "s", "s"], ["v2d", "v2d", "v2d"], [], [], False),
    ("fmov {0}, {1}", ["d", "s"], ["d", "d"], [], [], False),
    ("lsr {0}, {1}, #3", ["d", "s"], ["x", "x"], [], [], False),
    ("asr {0}, {1}, #1", ["d", "s"], ["w", "w"], [], [], False),
    ("add {0}, {1}, #1, lsl #12", ["d", "s"], ["x", "x"], [], [], False),
    ("subs {0}, {1}, #1", ["d", "s"], ["x", "x"], [], A64_NZCV, False),
    ("ands {0}, {1}, {2}", ["d", "s", "s"], ["x", "x", "x"], [], A64_NZCV, False),
    ("neg {0}, {1}", ["d", "s"], ["x", "x"], [], [], False),
]

DB_FLAGS_INCOMPLETE = set()   # was {adcq, andq, orq, xorq, testq} before the ISA database was repaired (F19)

X86_NAMES = {
    "a": ("rax", "eax", "ax", "al"), "b": ("rbx", "ebx", "bx", "bl"), "c": ("rcx", "ecx", "cx", "cl"),
    "d": ("rdx", "edx", "dx", "dl"), "si": ("rsi", "esi", "si", "sil"), "bp": ("rbp", "ebp", "bp", "bpl"),
    "r8": ("r8", "r8d", "r8w", "r8b"), "r13": ("r13", "r13d", "r13w", "r13b"),
}


def render_reg(isa, cls, fam):
    kind, n = fam.split(":")
    if isa == "x86":
        if cls in "qlwb":
            return "%" + X86_NAMES[n]["qlwb".index(cls)]
        return "%" + {"x": "xmm", "y": "ymm", "z": "zmm"}[cls] + n
    if cls in ("x", "w", "d", "s", "q"):
        return cls + n
    return "v%s.%s" % (n, cls[1:])


def pools(isa, rnd, ngp=3, nvec=2):
    if isa == "x86":
        # rax / rdx are always in the pool: they carry the implicit operands of cltq / cqto / cltd
        rest = [k for k in X86_NAMES if k not in ("a", "d")]
        return (["gpr:a", "gpr:d"] + rnd.sample(["gpr:" + k for k in rest], max(0, ngp - 1)),
                rnd.sample(["vec:%d" % i for i in (0, 1, 2, 7, 15)], nvec))
    return (rnd.sample(["gp:%d" % i for i in (0, 1, 2, 3, 9, 17, 28)], ngp),
            rnd.sample(["vec:%d" % i for i in (0, 1, 2, 7, 31)], nvec))


def multi_form_stems(isa):
    """mnemonic stems the vocabulary lists with more than one operand form (imul r,r / imul $i,r,r; shl $i,r / shl %cl,r)"""
    by = {}
    for e in (X86 if isa == "x86" else A64):
        mn = e[0].split()[0]
        stem = mn[:-1] if (isa == "x86" and mn[-1] in "qlwb" and not mn.startswith("v")) else mn
        form = (len(e[1]), "$" in e[0] or "#" in e[0], "%cl" in e[0])
        by.setdefault(stem, {}).setdefault(form, []).append(e)
    return {k: [x for v in forms.values() for x in v] for k, forms in by.items() if len(forms) > 1}


def gen(isa, rnd, gp, vec, entry=None):
    """One vocabulary instruction over the given family pools -> abstract instruction dict."""
    if entry is None and isa == "x86" and rnd.random() < 0.08:
        text, rd, wr = rnd.choice(X86_IMPLICIT)
        return {"text": text, "R": sorted(rd), "W": sorted(wr), "WB": [], "FR": [], "FW": [], "lat": 0, "latwo": 0,
                "lds": False, "ST": [], "LD": [], "CH": [], "shape": text, "flags_known": True, "db_flags_incomplete": False}
    entry = entry or rnd.choice(X86 if isa == "x86" else A64)
    tmpl, roles, classes, fr, fw, zero = entry[:6]
    also_read = list(entry[6]) if len(entry) > 6 else []
    fams = []
    for c in classes:
        is_gp = (c in "qlwb") if isa == "x86" else (c in ("x", "w"))
        fams.append(rnd.choice(gp if is_gp else vec))
    texts = [render_reg(isa, c, f) for c, f in zip(classes, fams)]
    R, W = set(), set()
    idiom = zero and len(set(texts)) == 1
    for r, f in zip(roles, fams):
        if idiom:
            W.add(f)
            continue
        if "s" in r:
            R.add(f)
        if "d" in r:
            W.add(f)
    R.update(also_read)
    flags_known = fw is not None
    mn = tmpl.split()[0]
    return {
        "text": tmpl.format(*texts), "R": sorted(R), "W": sorted(W), "WB": [],
        "FR": [] if idiom else ["f:" + x for x in fr], "FW": ["f:" + x for x in (fw or [])],
        "lat": 0, "latwo": 0, "lds": False, "ST": [], "LD": [], "CH": [], "shape": tmpl.split()[0],
        "flags_known": flags_known,
        # the shipped ISA database declares no / incomplete flag operands for these (finding F19)
        "db_flags_incomplete": isa == "x86" and mn in DB_FLAGS_INCOMPLETE,
    }
